#!/bin/bash
# Offline setup: install the contract library next to the checks (git-ignored .deps).
HERE="$(cd "$(dirname "${BASH_SOURCE[0]}")" && pwd)"
mkdir -p "$HERE/.deps"
PIP_NO_INDEX=1 /venv/bin/pip install --quiet --no-index --find-links /opt/veriftools/wheels \
   --target "$HERE/.deps" --upgrade icontract 2>&1 | grep -v -i "warning" || true
[ -d "$HERE/.deps/icontract" ] && echo "setup ok" || { echo "icontract not installed (checks fall back to plain wrappers)"; exit 0; }
