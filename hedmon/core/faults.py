"""File-system tracing and crash injection for the on-disk properties (C18, C19).

* ``Tracer`` - an audit-hook based recorder of file-system events under a path prefix (per process; the hook is
  installed once and switched on/off, audit hooks cannot be removed).
* ``run_with_crash(fn, k)`` - fork a child that runs ``fn`` with every file-system *step* counted (mkdir, open for
  writing, each chunk of a file copy, copystat, each write() to a file opened for writing, rename/replace/remove)
  and ``os._exit`` s immediately before step ``k``; ``k=None`` is the dry run that reports the number of steps and the
  step log through a pipe.
"""
import builtins
import io
import json
import os
import shutil
import sys
import time

CHUNK = 64 * 1024
_state = {"installed": False, "on": False, "prefix": None, "log": None}


def _hook(event, args):
    if not _state["on"]:
        return
    try:
        if event == "open":
            path, mode, flags = args
            if isinstance(path, (str, bytes)) and isinstance(flags, int):
                p = os.fsdecode(path)
                if p.startswith(_state["prefix"]):
                    w = bool(flags & (os.O_WRONLY | os.O_RDWR | os.O_CREAT | os.O_TRUNC | os.O_APPEND))
                    _state["log"].append(("open-w" if w else "open-r", p))
        elif event in ("os.mkdir", "os.remove", "os.rmdir", "os.utime", "os.chmod", "os.truncate", "os.listdir",
                       "os.scandir"):
            p = os.fsdecode(args[0]) if isinstance(args[0], (str, bytes)) else str(args[0])
            if p.startswith(_state["prefix"]):
                _state["log"].append((event, p))
        elif event in ("os.rename", "shutil.copyfile", "shutil.move", "shutil.copystat", "shutil.copymode"):
            a, b = os.fsdecode(args[0]), os.fsdecode(args[1])
            if a.startswith(_state["prefix"]) or b.startswith(_state["prefix"]):
                _state["log"].append((event, a, b))
    except Exception:  # noqa - a tracer must never break the traced code
        pass


class Tracer:
    """with Tracer(prefix) as log: ...   -> list of events under prefix, in program order."""

    def __init__(self, prefix):
        self.prefix = os.path.realpath(prefix)

    def __enter__(self):
        if not _state["installed"]:
            sys.addaudithook(_hook)
            _state["installed"] = True
        _state["prefix"] = self.prefix
        _state["log"] = []
        _state["on"] = True
        return _state["log"]

    def __exit__(self, *a):
        _state["on"] = False


# ------------------------------------------------------------------------------------------ crash injection
class _Stepper:
    def __init__(self, prefix, crash_at, log):
        self.prefix = prefix
        self.crash_at = crash_at
        self.n = 0
        self.log = log

    def step(self, what, path):
        self.n += 1
        if self.log is not None:
            self.log.append((self.n, what, os.path.relpath(path, self.prefix) if path.startswith(self.prefix) else path))
        if self.crash_at is not None and self.n == self.crash_at:
            os._exit(77)


class _WriteProxy:
    """File object proxy: every write() / close() of a file opened for writing under the prefix is a step."""

    def __init__(self, f, stepper, path):
        self._f, self._s, self._p = f, stepper, path

    def write(self, data):
        self._s.step("write", self._p)
        return self._f.write(data)

    def writelines(self, lines):
        for ln in lines:
            self.write(ln)

    def close(self):
        if not self._f.closed:
            self._s.step("close", self._p)
        return self._f.close()

    def __enter__(self):
        self._f.__enter__()
        return self

    def __exit__(self, *a):
        self.close()
        return False

    def __getattr__(self, name):
        return getattr(self._f, name)

    def __iter__(self):
        return iter(self._f)


def _install_interposers(prefix, stepper):
    real_open = builtins.open
    real_mkdir = os.mkdir
    real_replace, real_rename, real_remove = os.replace, os.rename, os.remove
    real_copystat = shutil.copystat

    def under(p):
        try:
            return os.path.realpath(os.fsdecode(p)).startswith(prefix)
        except Exception:  # noqa
            return False

    def open_(file, mode="r", *a, **kw):
        if isinstance(file, (str, bytes, os.PathLike)) and any(c in mode for c in "wax+") and under(file):
            p = os.path.realpath(os.fsdecode(file))
            stepper.step("open-w", p)
            f = real_open(file, mode, *a, **kw)
            return _WriteProxy(f, stepper, p)
        return real_open(file, mode, *a, **kw)

    def mkdir(path, *a, **kw):
        if under(path):
            stepper.step("mkdir", os.path.realpath(os.fsdecode(path)))
        return real_mkdir(path, *a, **kw)

    def copyfile(src, dst, *, follow_symlinks=True):
        """Chunked copy: one step for creating dst and one per chunk, data flushed chunk by chunk."""
        dstp = os.path.realpath(os.fsdecode(dst))
        if not dstp.startswith(prefix):
            with real_open(src, "rb") as fs, real_open(dst, "wb") as fd:
                shutil.copyfileobj(fs, fd)
            return dst
        stepper.step("copy-create", dstp)
        with real_open(src, "rb") as fs, real_open(dst, "wb") as fd:
            while True:
                buf = fs.read(CHUNK)
                if not buf:
                    break
                stepper.step("copy-chunk", dstp)
                fd.write(buf)
                fd.flush()
        stepper.step("copy-done", dstp)
        return dst

    def copystat(src, dst, *a, **kw):
        if under(dst):
            stepper.step("copystat", os.path.realpath(os.fsdecode(dst)))
        return real_copystat(src, dst, *a, **kw)

    def replace(a, b, *x, **kw):
        if under(b) or under(a):
            stepper.step("replace", os.path.realpath(os.fsdecode(b)))
        return real_replace(a, b, *x, **kw)

    def rename(a, b, *x, **kw):
        if under(b) or under(a):
            stepper.step("rename", os.path.realpath(os.fsdecode(b)))
        return real_rename(a, b, *x, **kw)

    def remove(a, *x, **kw):
        if under(a):
            stepper.step("remove", os.path.realpath(os.fsdecode(a)))
        return real_remove(a, *x, **kw)

    builtins.open = open_
    io.open = open_
    os.mkdir = mkdir
    os.replace, os.rename, os.remove = replace, rename, remove
    shutil.copyfile = copyfile
    shutil.copystat = copystat


def run_with_crash(fn, prefix, crash_at=None, timeout=120):
    """Run fn() in a forked child with file-system steps under prefix counted. Returns dict(status, steps, log, result).
    status: 'done' (fn returned), 'crashed' (exited at the requested step), 'raised:<type>', 'timeout'."""
    prefix = os.path.realpath(prefix)
    r, w = os.pipe()
    pid = os.fork()
    if pid == 0:
        code = 0
        try:
            os.close(r)
            log = [] if crash_at is None else None
            stepper = _Stepper(prefix, crash_at, log)
            _install_interposers(prefix, stepper)
            out = dict(status="done", result=None)
            try:
                out["result"] = fn()
            except BaseException as ex:  # noqa
                out["status"] = "raised:" + type(ex).__name__
                out["message"] = str(ex)[:300]
            out["steps"] = stepper.n
            out["log"] = log
            with os.fdopen(w, "w") as f:
                json.dump(out, f, default=repr)
        except BaseException:  # noqa
            code = 99
        finally:
            os._exit(code)
    os.close(w)
    t0 = time.time()
    data = b""
    with os.fdopen(r, "rb") as f:
        data = f.read()
    while True:
        p, st = os.waitpid(pid, os.WNOHANG)
        if p:
            break
        if time.time() - t0 > timeout:
            os.kill(pid, 9)
            os.waitpid(pid, 0)
            return dict(status="timeout", steps=None, log=None, result=None)
        time.sleep(0.002)
    if os.WIFEXITED(st) and os.WEXITSTATUS(st) == 77:
        return dict(status="crashed", steps=crash_at, log=None, result=None)
    if data:
        try:
            return json.loads(data)
        except ValueError:
            pass
    return dict(status=f"child-exit:{st}", steps=None, log=None, result=None)
