"""hedmon runner: shards a property's workload over forked workers, merges what the monitors
observed, classifies violations against KNOWN_FINDINGS.txt, writes evidence and prints the verdict.

Exit status: 0 held on everything observed; 1 violation(s) not listed as open findings;
2 inconclusive (monitor never reached, worker died, watchdog fired, too few non-trivial cases).
"""
import hashlib
import importlib
import json
import os
import pickle
import random
import re
import signal
import sys
import time
import traceback

VERIF = os.path.dirname(os.path.dirname(os.path.dirname(os.path.abspath(__file__))))
KNOWN = os.path.join(VERIF, "KNOWN_FINDINGS.txt")
MAX_KEPT_PER_KEY = 5
MAX_SAMPLES = 12


def stable_hash(obj):
    if not isinstance(obj, (str, bytes)):
        obj = json.dumps(obj, sort_keys=True, default=repr)
    if isinstance(obj, str):
        obj = obj.encode("utf-8", "surrogatepass")
    return int.from_bytes(hashlib.blake2b(obj, digest_size=8).digest(), "big")


class Recorder:
    """Per-shard record of what the monitors observed."""

    def __init__(self, shard_index=0, seed=0):
        self.shard_index = shard_index
        self.rng = random.Random(seed * 1000003 + shard_index)
        self.evaluations = 0
        self.distinct = set()          # hashes of distinct non-trivial cases
        self.distinct_disjoint = 0     # counted non-trivial cases known to be distinct by construction
        self.monitors = {}             # monitor name -> number of evaluations
        self.hist = {}                 # histogram name -> {key: count}
        self.violations = {}           # (key, what) -> {"count": n, "cases": [...]}
        self.samples = []
        self.notes = {}
        self._sample_seen = 0
        self.discarded = 0

    # --- cases
    def case(self, case, nontrivial=True):
        self.evaluations += 1
        if nontrivial:
            self.distinct.add(stable_hash(case))

    def bulk(self, evaluations, distinct):
        """For enumerations whose cases are distinct by construction and disjoint between shards."""
        self.evaluations += evaluations
        self.distinct_disjoint += distinct

    def discard(self, n=1):
        self.discarded += n

    # --- monitors
    def mon(self, name, n=1):
        self.monitors[name] = self.monitors.get(name, 0) + n

    def count(self, histogram, key, n=1):
        h = self.hist.setdefault(histogram, {})
        h[key] = h.get(key, 0) + n

    def note(self, name, value):
        self.notes[name] = value

    def sample(self, obj):
        self._sample_seen += 1
        if len(self.samples) < MAX_SAMPLES:
            self.samples.append(obj)
        else:
            j = self.rng.randrange(self._sample_seen)
            if j < MAX_SAMPLES:
                self.samples[j] = obj

    def violation(self, what, case, key=None):
        """what: short stable description of the refuting observation (no random values);
        case: JSON-able replayable case; key: mechanism key if the module's classifier recognises it."""
        ent = self.violations.setdefault((key, what), {"count": 0, "cases": []})
        ent["count"] += 1
        if len(ent["cases"]) < MAX_KEPT_PER_KEY:
            ent["cases"].append(case)

    def dump(self):
        return dict(shard=self.shard_index, evaluations=self.evaluations, distinct=self.distinct,
                    distinct_disjoint=self.distinct_disjoint, monitors=self.monitors, hist=self.hist,
                    violations=self.violations, samples=self.samples, notes=self.notes,
                    discarded=self.discarded)


def read_known():
    open_, fixed = {}, []
    if os.path.exists(KNOWN):
        for line in open(KNOWN, encoding="utf-8"):
            line = line.strip()
            m = re.match(r"open: property=(\S+) key=(\S+) (.*)", line)
            if m:
                open_[(m.group(1), m.group(2))] = m.group(3)
                continue
            m = re.match(r"fixed: property=(\S+) (\S+) (.*)", line)
            if m:
                fixed.append((m.group(1), m.group(2), m.group(3)))
    return open_, fixed


def _worker(mod, shards, counter, lock, outdir, seed, tier, hard_deadline):
    signal.signal(signal.SIGALRM, signal.SIG_DFL)
    while True:
        with lock:
            i = counter.value
            counter.value += 1
        if i >= len(shards):
            break
        rec = Recorder(i, seed)
        t0 = time.time()
        status = "ok"
        try:
            remaining = int(max(5, hard_deadline - time.time()))
            signal.alarm(remaining)           # a hung shard kills this worker -> inconclusive
            mod.run_shard(shards[i], rec)
            signal.alarm(0)
        except BaseException:                  # harness failure, not a verdict
            signal.alarm(0)
            status = "error: " + traceback.format_exc()
        d = rec.dump()
        d["status"] = status
        d["wall"] = time.time() - t0
        tmp = os.path.join(outdir, f"{i}.tmp")
        with open(tmp, "wb") as f:
            pickle.dump(d, f)
        os.replace(tmp, os.path.join(outdir, f"{i}.pkl"))
    os._exit(0)


def run_property(prop, tier, seed, replay_path=None):
    import multiprocessing
    from hedmon.core import env
    t_start = time.time()
    mod = importlib.import_module(f"hedmon.props.{prop.lower()}")
    scratch = env.setup()
    evidence_path = os.path.join(VERIF, "evidence", f"{prop}.json")

    if replay_path:
        rp = json.load(open(replay_path))
        rec = Recorder(0, rp.get("seed", 0))
        mod.replay(rp["case"], rec)
        if rec.violations:
            for (key, what), ent in rec.violations.items():
                print(f"VIOLATION property={prop} replay={replay_path}  [{key or 'unclassified'}] {what}")
            return 1
        print(f"replay of {replay_path}: no violation observed")
        return 0

    if hasattr(mod, "prepare"):
        mod.prepare(tier, seed)
    shards = mod.shards(tier, seed)
    nproc = min(len(shards), int(os.environ.get("VERIF_JOBS", getattr(mod, "JOBS", {}).get(tier, 16))))
    budget = getattr(mod, "WATCHDOG_S", {"quick": 600, "thorough": 3600})[tier]
    hard_deadline = time.time() + budget
    outdir = os.path.join(scratch, "shards")
    os.makedirs(outdir, exist_ok=True)
    ctx = multiprocessing.get_context("fork")
    counter = ctx.Value("i", 0, lock=False)
    lock = ctx.Lock()
    pids = []
    sys.stdout.flush()
    for _ in range(nproc):
        pid = os.fork()
        if pid == 0:
            try:
                _worker(mod, shards, counter, lock, outdir, seed, tier, hard_deadline)
            finally:
                os._exit(0)
        pids.append(pid)
    worker_deaths = []
    alive = set(pids)
    while alive:
        for pid in list(alive):
            r, st = os.waitpid(pid, os.WNOHANG)
            if r:
                alive.discard(pid)
                if st != 0:
                    worker_deaths.append(st)
        if time.time() > hard_deadline + 30:
            for pid in alive:
                try:
                    os.kill(pid, signal.SIGKILL)
                except OSError:
                    pass
            worker_deaths.append("watchdog")
        time.sleep(0.05)

    # ---- merge
    merged = Recorder(-1, seed)
    inconclusive = []
    missing = 0
    shard_walls = []
    for i in range(len(shards)):
        p = os.path.join(outdir, f"{i}.pkl")
        if not os.path.exists(p):
            missing += 1
            continue
        d = pickle.load(open(p, "rb"))
        if d["status"] != "ok":
            inconclusive.append(f"shard {i} harness error: {d['status'][-1500:]}")
        shard_walls.append(d["wall"])
        merged.evaluations += d["evaluations"]
        merged.distinct |= d["distinct"]
        merged.distinct_disjoint += d["distinct_disjoint"]
        merged.discarded += d["discarded"]
        for k, v in d["monitors"].items():
            merged.monitors[k] = merged.monitors.get(k, 0) + v
        for h, dd in d["hist"].items():
            mh = merged.hist.setdefault(h, {})
            for k, v in dd.items():
                mh[k] = mh.get(k, 0) + v
        for kw, ent in d["violations"].items():
            me = merged.violations.setdefault(kw, {"count": 0, "cases": []})
            me["count"] += ent["count"]
            me["cases"] += ent["cases"][:max(0, MAX_KEPT_PER_KEY - len(me["cases"]))]
        for s in d["samples"]:
            if len(merged.samples) < MAX_SAMPLES:
                merged.samples.append(s)
        for k, v in d["notes"].items():
            merged.notes.setdefault(k, []).append(v)
    if missing:
        inconclusive.append(f"{missing} of {len(shards)} shards produced no result (worker died or watchdog): {worker_deaths}")

    # ---- module-level checks of the merged observation (e.g. cross-shard relations, minimum counts)
    minimums = getattr(mod, "MIN_MONITOR_EVALS", {})
    if callable(minimums):
        minimums = minimums(tier)
    for name, least in minimums.items():
        got = merged.monitors.get(name, 0)
        if got < least:
            inconclusive.append(f"monitor '{name}' evaluated {got} times (< {least}): not reached")
    if hasattr(mod, "finalize"):
        mod.finalize(merged, tier, inconclusive)

    distinct_nontrivial = len(merged.distinct) + merged.distinct_disjoint
    if distinct_nontrivial < 2:
        inconclusive.append("fewer than 2 distinct non-trivial cases observed")

    # ---- classify
    open_, fixed = read_known()
    rc = 0
    known_lines, viol_lines = [], []
    n_unknown = 0
    for (key, what), ent in sorted(merged.violations.items(), key=lambda kv: (str(kv[0][0]), kv[0][1])):
        if key is not None and (prop, key) in open_:
            known_lines.append((key, what, ent["count"]))
            continue
        n_unknown += ent["count"]
        rdir = os.path.join(VERIF, "replays", prop)
        os.makedirs(rdir, exist_ok=True)
        case = ent["cases"][0]
        h = "%016x" % stable_hash([key, what, case])
        rpath = os.path.join(rdir, f"{h}.json")
        with open(rpath, "w") as f:
            json.dump(dict(property=prop, tier=tier, seed=seed, key=key, what=what, count=ent["count"],
                           case=case, more_cases=ent["cases"][1:]), f, indent=1, default=repr)
        viol_lines.append(f"VIOLATION property={prop} replay={rpath}  [{key or 'unclassified'}] {what} (x{ent['count']})")
    seen_keys = {}
    for key, what, cnt in known_lines:
        seen_keys.setdefault(key, [0, what])[0] += cnt
    for key, (cnt, what) in seen_keys.items():
        print(f"KNOWN-FINDING: property={prop} {key} {open_[(prop, key)]} (observed x{cnt}; e.g. {what})")
    for line in viol_lines:
        print(line)
    if viol_lines:
        rc = 1
    elif inconclusive:
        rc = 2
    for msg in inconclusive:
        print(f"INCONCLUSIVE property={prop}: {msg}")

    # ---- evidence
    wall = time.time() - t_start
    cov = dict(
        evaluations=merged.evaluations,
        distinct_nontrivial=distinct_nontrivial,
        rule=getattr(mod, "RULE", ""),
        samples=merged.samples[:MAX_SAMPLES],
        monitor_evaluations=merged.monitors,
        histograms={h: (dict(sorted(d.items(), key=lambda kv: -kv[1])[:60])) for h, d in merged.hist.items()},
        histogram_sizes={h: len(d) for h, d in merged.hist.items()},
        discarded_cases=merged.discarded,
        shards=len(shards), workers=nproc,
        known_findings_observed={k: v[0] for k, v in seen_keys.items()},
        unlisted_violations=n_unknown,
        inconclusive=inconclusive,
        hed_file=env.hed_file(),
        repo_head=env.repo_head(),
    )
    if getattr(mod, "EXHAUSTIVE", None):
        ex = mod.EXHAUSTIVE(tier) if callable(mod.EXHAUSTIVE) else mod.EXHAUSTIVE
        if ex:
            cov["exhaustive"] = True
            cov["exhaustive_bound"] = ex
    for k, v in merged.notes.items():
        cov.setdefault("notes", {})[k] = v[:8]
    ev = dict(property_id=prop, tier=tier, seed=seed, level=mod.LEVEL, coverage=cov,
              assumptions=list(getattr(mod, "ASSUMPTIONS", [])) + [
                  "monitors decide only the executions produced by this run",
                  "trusted: CPython, pandas, the harness oracles named in 'rule'"],
              wall_s=round(wall, 2), violations=n_unknown)
    os.makedirs(os.path.dirname(evidence_path), exist_ok=True)
    with open(evidence_path, "w") as f:
        json.dump(ev, f, indent=1, default=repr)
    verdict = {0: "HELD", 1: "VIOLATED", 2: "INCONCLUSIVE"}[rc]
    print(f"{prop} {tier} seed={seed}: {verdict} on {merged.evaluations} evaluations, "
          f"{distinct_nontrivial} distinct non-trivial; monitors={merged.monitors}; wall={wall:.1f}s")
    return rc


def main(argv=None):
    argv = list(sys.argv[1:] if argv is None else argv)
    if not argv:
        print("usage: check <Cnn> [quick|thorough] [--replay file]")
        return 2
    prop = argv[0].upper()
    tier = os.environ.get("VERIF_TIER", "quick")
    replay = None
    i = 1
    while i < len(argv):
        if argv[i] in ("quick", "thorough"):
            tier = argv[i]
        elif argv[i] == "--replay":
            replay = argv[i + 1]
            i += 1
        i += 1
    seed = int(os.environ.get("VERIF_SEED", "0") or 0)
    return run_property(prop, tier, seed, replay)


if __name__ == "__main__":
    sys.exit(main())
