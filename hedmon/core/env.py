"""Process environment shared by all checks: scratch tree, hermetic schema cache, schema loading."""
import atexit
import os
import shutil
import subprocess
import sys
import tempfile

REPO = os.environ.get("HEDMON_REPO", "/repo")
SCHEMA_DATA = os.path.join(REPO, "hed", "schema", "schema_data")
_scratch = None
_owner_pid = None

BUNDLED = ["8.0.0", "8.1.0", "8.2.0", "8.3.0", "score_1.0.0", "score_1.1.0", "score_2.0.0",
           "testlib_1.0.2", "testlib_2.0.0", "testlib_2.1.0", "testlib_3.0.0"]
STANDARD = ["8.0.0", "8.1.0", "8.2.0", "8.3.0"]
PARTNERED = ["score_1.1.0", "score_2.0.0", "testlib_2.0.0", "testlib_2.1.0", "testlib_3.0.0"]
LEGACY_STANDALONE = ["score_1.0.0", "testlib_1.0.2"]


def xml_path(version):
    name = f"HED_{version}.xml" if "_" in version else f"HED{version}.xml"
    return os.path.join(SCHEMA_DATA, name)


def _cleanup():
    if _scratch and os.getpid() == _owner_pid:
        shutil.rmtree(_scratch, ignore_errors=True)


def scratch():
    return _scratch


def setup():
    """Create the scratch tree and point hed at a cache directory filled by plain copying."""
    global _scratch, _owner_pid
    if _scratch:
        return _scratch
    if REPO not in sys.path:
        sys.path.insert(0, REPO)
    _scratch = tempfile.mkdtemp(prefix="hedmon-")
    _owner_pid = os.getpid()
    atexit.register(_cleanup)
    cache = os.path.join(_scratch, "cache")
    fill_cache(cache)
    import hed.schema
    hed.schema.set_cache_directory(cache)
    clear_hed_caches()
    return _scratch


def fill_cache(cache):
    os.makedirs(cache, exist_ok=True)
    for n in os.listdir(SCHEMA_DATA):
        p = os.path.join(SCHEMA_DATA, n)
        if os.path.isfile(p):
            shutil.copyfile(p, os.path.join(cache, n))
    lib = os.path.join(SCHEMA_DATA, "library_data")
    if os.path.isdir(lib):
        shutil.copytree(lib, os.path.join(cache, "library_data"), dirs_exist_ok=True)


def clear_hed_caches():
    from hed.schema import hed_schema_io, hed_cache
    hed_schema_io._load_schema_version.cache_clear()
    hed_cache.get_library_data.cache_clear()


_schemas = {}


def schema(version):
    """Load a bundled schema (string version or list for a group) through hed's public loader."""
    key = repr(version)
    if key not in _schemas:
        from hed.schema import load_schema_version
        _schemas[key] = load_schema_version(version)
    return _schemas[key]


def hed_file():
    import hed
    return hed.__file__


def repo_head():
    try:
        head = subprocess.run(["git", "-C", REPO, "rev-parse", "--short", "HEAD"], capture_output=True,
                              text=True, timeout=20).stdout.strip()
        dirty = subprocess.run(["git", "-C", REPO, "status", "--porcelain", "--untracked-files=no"],
                               capture_output=True, text=True, timeout=20).stdout.strip()
        return head + ("+dirty" if dirty else "")
    except Exception:
        return "unknown"
