"""C14 Schema compliance checking accepts released schemas and flags seeded faults.

Faults are seeded in the XML text with xml.etree, the text is loaded by hed from scratch, and check_compliance must
report the specification's code for the fault; with warnings off only errors may be returned.
"""
import random
import xml.etree.ElementTree as ET

from hedmon.core import env

ID = "C14"
LEVEL = "exploration"
RULE = ("bundled standard and partnered schemas must pass with no error; per schema, one fault of 18 kinds is seeded at "
        "a chosen occurrence (node / '#' node / unit / unit class / value class / attribute) of the XML text: quick 10 "
        "positions per kind on 8.3.0, 8.2.0, score_2.0.0; thorough every applicable occurrence on 8.3.0 (capped per kind) "
        "and 200 per kind elsewhere. non-trivial = every seeded case; distinct = distinct (schema, kind, position)")
ASSUMPTIONS = ["fault -> code table follows hed/errors/schema_error_messages.py (SCHEMA_DUPLICATE_NODE, "
               "SCHEMA_ATTRIBUTE_INVALID, SCHEMA_ATTRIBUTE_VALUE_INVALID, SCHEMA_DEPRECATION_ERROR)",
               "hedId faults are seeded on a copy of 8.3.0 whose version is bumped to 8.4.0 so that 8.3.0 is the previous "
               "release found in the hermetic cache", "SCHEMA_PRERELEASE_VERSION_USED is ignored"]
MIN_MONITOR_EVALS = {"released-schema-no-error": 9, "seeded-fault-has-code": 120, "warnings-off-only-errors": 120, "group-compliance-equals-members": 8, "legal-edit-not-reported": 15, "tsv-duplicate-row-reported": 12}
WATCHDOG_S = {"quick": 1500, "thorough": 7200}
CODES = {"duplicate-node": "SCHEMA_DUPLICATE_NODE", "library-node-named-as-standard": "SCHEMA_LIBRARY_INVALID", "attribute-from-other-section": "SCHEMA_ATTRIBUTE_INVALID",
         "unknown-attribute": "SCHEMA_ATTRIBUTE_INVALID", "missing-unit-class": "SCHEMA_ATTRIBUTE_VALUE_INVALID",
         "missing-value-class": "SCHEMA_ATTRIBUTE_VALUE_INVALID", "missing-suggested-tag": "SCHEMA_ATTRIBUTE_VALUE_INVALID",
         "missing-related-tag": "SCHEMA_ATTRIBUTE_VALUE_INVALID", "class-attribute-on-non-placeholder": "SCHEMA_ATTRIBUTE_VALUE_INVALID",
         "deprecated-from-unknown": "SCHEMA_DEPRECATION_ERROR", "deprecated-from-not-older": "SCHEMA_DEPRECATION_ERROR",
         "conversion-factor-not-positive": "SCHEMA_ATTRIBUTE_VALUE_INVALID", "conversion-factor-not-numeric": "SCHEMA_ATTRIBUTE_VALUE_INVALID",
         "default-units-not-in-class": "SCHEMA_ATTRIBUTE_VALUE_INVALID", "unknown-allowed-character": "SCHEMA_ATTRIBUTE_VALUE_INVALID",
         "foreign-in-library": "SCHEMA_ATTRIBUTE_VALUE_INVALID", "hed-id-out-of-range": "SCHEMA_ATTRIBUTE_VALUE_INVALID",
         "hed-id-changed": "SCHEMA_ATTRIBUTE_VALUE_INVALID", "hed-id-malformed": "SCHEMA_ATTRIBUTE_VALUE_INVALID"}
# edits that are legal: the named code must NOT appear (the counterpart of a fault kind)
CONTROLS = {"deprecated-from-valid": "SCHEMA_DEPRECATION_ERROR"}
SEED_SCHEMAS = {"quick": ["8.3.0", "8.2.0", "score_2.0.0"],
                "thorough": ["8.3.0", "8.2.0", "8.1.0", "8.0.0", "score_2.0.0", "score_1.1.0", "testlib_3.0.0", "testlib_2.0.0"]}


GROUPS = [["8.3.0", "sc:score_2.0.0"], ["8.2.0", "sc:score_1.1.0"], ["8.2.0", "tl:testlib_2.0.0"], ["aa:8.3.0", "sc:score_1.1.0"],
          ["8.1.0", "tl:testlib_3.0.0", "sc:score_1.1.0"]]


def check_group(versions, rec):
    """A group of schemas is checked member by member: with warnings on and off it returns what its members return."""
    from hed.schema import load_schema_version
    case = dict(kind="group", versions=versions)
    key = lambda i: (i["code"], i["severity"], i["message"])      # noqa
    for warn in (True, False):
        rec.mon("group-compliance-equals-members")
        rec.case(("group", tuple(versions), warn))
        try:
            env.clear_hed_caches()
            g = load_schema_version(versions)
            got = g.check_compliance(check_for_warnings=warn)
            want = []
            for v in versions:
                want += load_schema_version(v).check_compliance(check_for_warnings=warn)
        except Exception as ex:  # noqa
            rec.violation(f"compliance check of a schema group raised {type(ex).__name__}", case)
            return
        if not warn and any(i["severity"] != 1 for i in got):
            rec.violation("check_compliance of a group with warnings off returned an issue that is not an error", case)
            return
        if warn and not any(i["severity"] != 1 for i in want):
            rec.count("group-without-warnings", "/".join(versions))
        if sorted(map(key, got)) != sorted(map(key, want)):
            rec.violation("a group's compliance issues differ from those of its members checked one by one",
                          dict(case, warnings=warn))
            return


def check_tsv_duplicate(case, rec):
    """The spreadsheet form of a schema with one tag row repeated (exactly, or with another description): the node
    name is there twice, which is reported as for the other formats."""
    import pandas as pd
    from hed.schema import from_dataframes
    from hed.errors.exceptions import HedFileError
    env.clear_hed_caches()
    schema = env.schema(case["version"])
    rec.mon("tsv-duplicate-row-reported")
    try:
        dfs = dict(schema.get_as_dataframes())
        t = dfs["Tag"]
        k = (case["pos"] * 37 + 11) % len(t)
        while str(t.iloc[k]["rdfs:label"]).endswith("#"):      # (a placeholder row is not a node with a name)
            k = (k + 1) % len(t)
        row = t.iloc[[k]].copy()
        if case["pos"] % 2 == 1:
            row["dc:description"] = "another description"
        at = k + 1 if case["pos"] % 3 else len(t)
        dfs["Tag"] = pd.concat([t.iloc[:at], row, t.iloc[at:]], ignore_index=True)
        codes = {i["code"] for i in from_dataframes(dfs).check_compliance(check_for_warnings=True)}
    except HedFileError:
        rec.count("duplicate-rejected-at-load", case["version"] + " (tsv)")
        return
    except Exception as ex:  # noqa
        rec.violation(f"loading / checking the spreadsheet form with a repeated row raised {type(ex).__name__}", case)
        return
    if "SCHEMA_DUPLICATE_NODE" not in codes:
        rec.violation("a tag row repeated in the spreadsheet form is not reported as SCHEMA_DUPLICATE_NODE", case)


def shards(tier, seed):
    out = [dict(kind="released", version=v) for v in env.STANDARD + env.PARTNERED]
    for v in SEED_SCHEMAS[tier]:
        out.append(dict(kind="tsv-duplicate", version=v, n=6 if tier == "quick" else 60))
    for versions in GROUPS:
        out.append(dict(kind="group", versions=versions))
    for v in SEED_SCHEMAS[tier]:
        for fault in list(CODES) + list(CONTROLS):
            npos = 10 if tier == "quick" else (400 if v == "8.3.0" else 200)
            per = 5 if tier == "quick" else 25
            off = (seed * 10) if tier == "quick" else 0
            for i in range(off, off + npos, per):
                out.append(dict(kind="seeded", version=v, fault=fault, start=i, n=per, exhaustive=(tier == "thorough" and v == "8.3.0")))
    return out


def _attr(el, name, values=None):
    a = ET.SubElement(el, "attribute")
    ET.SubElement(a, "name").text = name
    for v in values or []:
        ET.SubElement(a, "value").text = v
    return a


def _get_attr(el, name):
    for a in el.findall("attribute"):
        if a.findtext("name") == name:
            return a
    return None


def seed_fault(version, fault, pos, exhaustive=False):
    """Return (xml_text, description) or None if the fault kind has no position `pos` in this schema."""
    text = open(env.xml_path(version), encoding="utf-8").read()
    root = ET.fromstring(text)
    lib = root.get("library")
    sver = root.get("version")
    schema_el = root.find("schema")
    allnodes = [n for n in schema_el.iter("node")]
    nodes = [n for n in allnodes if n.findtext("name") != "#"]
    hashes = [n for n in allnodes if n.findtext("name") == "#"]
    if lib:
        own = lambda n: _get_attr(n, "inLibrary") is not None     # noqa
        if pos % 4 == 3 and fault not in ("duplicate-node", "library-node-named-as-standard", "foreign-in-library"):
            # every fourth position lies in the standard part of the partnered library
            own = lambda n: _get_attr(n, "inLibrary") is None     # noqa
        nodes_l = [n for n in nodes if own(n)]
        hashes_l = [n for n in hashes if own(n)]
    else:
        nodes_l, hashes_l = nodes, hashes
    uclasses = root.findall("unitClassDefinitions/unitClassDefinition")
    units = [u for uc in uclasses for u in uc.findall("unit")]
    vclasses = root.findall("valueClassDefinitions/valueClassDefinition")
    attr_defs = {a.findtext("name") for a in root.findall("schemaAttributeDefinitions/schemaAttributeDefinition")}
    rng = random.Random(f"c14-{version}-{fault}-{pos}")

    def pick(lst):
        if not lst:
            return None
        if exhaustive:
            return lst[pos] if pos < len(lst) else None
        return lst[(pos * 7919 + 13) % len(lst)]
    desc = None
    if fault == "duplicate-node":
        n = pick(nodes_l)
        if n is None:
            return None
        others = [x for x in nodes_l if x is not n and not x.findall("node")] or nodes_l
        host = others[(pos * 31) % len(others)]
        dup = ET.SubElement(host, "node")
        ET.SubElement(dup, "name").text = n.findtext("name")
        ET.SubElement(dup, "description").text = "duplicate"
        if lib:
            _attr(dup, "inLibrary", [lib])
        desc = n.findtext("name")
    elif fault == "library-node-named-as-standard":
        if not lib:
            return None
        std = [x for x in nodes if _get_attr(x, "inLibrary") is None]
        host_pool = [x for x in nodes_l if not any(c.findtext("name") == "#" for c in x.findall("node"))]
        n, host = pick(std), (host_pool[(pos * 31) % len(host_pool)] if host_pool else None)
        if n is None or host is None:
            return None
        dup = ET.SubElement(host, "node")
        ET.SubElement(dup, "name").text = n.findtext("name")
        ET.SubElement(dup, "description").text = "a library node taking the name of a standard node"
        _attr(dup, "inLibrary", [lib])
        desc = f"{n.findtext('name')} under {host.findtext('name')}"
    elif fault == "attribute-from-other-section":
        # every declared attribute x every kind of element it is not declared for
        sections = {"tag": nodes_l}
        if not lib:
            sections.update({"unitClass": uclasses, "unit": units, "valueClass": vclasses,
                             "unitModifier": root.findall("unitModifierDefinitions/unitModifierDefinition")})
        domain_words = {"tag": ("tagDomain", "nodeProperty"), "unitClass": ("unitClassDomain", "unitClassProperty"),
                        "unit": ("unitDomain", "unitProperty"), "valueClass": ("valueClassDomain", "valueClassProperty"),
                        "unitModifier": ("unitModifierDomain", "unitModifierProperty")}
        pairs = []
        for ad in root.findall("schemaAttributeDefinitions/schemaAttributeDefinition"):
            a = ad.findtext("name")
            props = {p.findtext("name") for p in ad.findall("property")}
            if props & {"elementDomain", "elementProperty"}:
                continue
            doms = {sec for sec, words in domain_words.items() if props & set(words)}
            if not doms:
                doms = {"tag"}                      # the older schemas mark only the non-tag attributes
            is_bool = bool(props & {"boolRange", "boolProperty"})
            for sec in sorted(sections):
                if sec not in doms and sections[sec]:
                    pairs.append((a, sec, is_bool))
        if not pairs:
            return None
        a, sec, is_bool = pairs[(pos * 7 + pos // len(pairs)) % len(pairs)]
        n = pick(sections[sec])
        if n is None:
            return None
        if _get_attr(n, a) is not None:
            return None
        values = {"unitClass": [uclasses[0].findtext("name")] if uclasses else ["x"],
                  "valueClass": [vclasses[0].findtext("name")] if vclasses else ["x"],
                  "defaultUnits": ["s"], "allowedCharacter": ["letters"], "conversionFactor": ["1.0"]}
        _attr(n, a, None if is_bool else values.get(a, [nodes[0].findtext("name")]))
        desc = f"{a} on {sec} {n.findtext('name')}"
    elif fault == "unknown-attribute":
        targets = nodes_l + (units if not lib else []) + (vclasses if not lib else [])
        n = pick(targets)
        if n is None:
            return None
        _attr(n, "zzNoSuchAttribute", ["x"] if pos % 2 else None)
        desc = n.findtext("name")
    elif fault in ("missing-unit-class", "missing-value-class"):
        key = "unitClass" if fault == "missing-unit-class" else "valueClass"
        n = pick(hashes_l)
        if n is None:
            return None
        a = _get_attr(n, key)
        if a is None:
            _attr(n, key, ["zzNoSuchClass"])
        else:
            ET.SubElement(a, "value").text = "zzNoSuchClass"
        if _get_attr(n, "takesValue") is None:
            _attr(n, "takesValue")
        desc = key
    elif fault in ("missing-suggested-tag", "missing-related-tag"):
        key = "suggestedTag" if fault == "missing-suggested-tag" else "relatedTag"
        n = pick(nodes_l)
        if n is None:
            return None
        a = _get_attr(n, key)
        if a is None:
            _attr(n, key, ["Zz-no-such-tag"])
        else:
            ET.SubElement(a, "value").text = "Zz-no-such-tag"
        desc = n.findtext("name")
    elif fault == "class-attribute-on-non-placeholder":
        n = pick([x for x in nodes_l])
        if n is None:
            return None
        which = ["takesValue", "unitClass", "valueClass"][pos % 3]
        if which == "takesValue":
            _attr(n, "takesValue")
        elif which == "unitClass":
            _attr(n, "unitClass", [uclasses[pos % len(uclasses)].findtext("name")])
        else:
            _attr(n, "valueClass", [vclasses[pos % len(vclasses)].findtext("name")])
        desc = f"{which} on {n.findtext('name')}"
    elif fault == "deprecated-from-valid":
        # a leaf deprecated from an earlier release of the schema (or library) that owns it: nothing to report
        if "deprecatedFrom" not in attr_defs:
            return None
        std_part = bool(lib) and pos % 3 == 2
        pool = nodes
        if lib:
            pool = [x for x in nodes if (_get_attr(x, "inLibrary") is None) == std_part]
        # (a node that a live node names as related or suggested tag may not be deprecated: those are left alone)
        named = {v.text for v in root.iter("value")}
        leaves = [x for x in pool if not x.findall("node") and _get_attr(x, "deprecatedFrom") is None
                  and x.findtext("name") not in named]
        n = pick(leaves)
        if n is None:
            return None
        own = (root.get("withStandard") or sver) if (std_part or not lib) else sver
        family = [b for b in env.BUNDLED if ("_" not in b) == (std_part or not lib) and (std_part or not lib or b.startswith(lib + "_"))]
        as_tuple = lambda v: tuple(int(x) for x in v.split("_")[-1].split("."))      # noqa
        older = [b.split("_")[-1] for b in family if as_tuple(b) < as_tuple(own)]
        if not older:
            return None
        val = older[pos % len(older)]
        _attr(n, "deprecatedFrom", [val])
        desc = f"{n.findtext('name')} deprecatedFrom {val}" + (" (standard part)" if std_part else "")
    elif fault in ("deprecated-from-unknown", "deprecated-from-not-older"):
        if "deprecatedFrom" not in attr_defs:
            return None
        std_ver = root.get("withStandard") or sver
        std_part = bool(lib) and fault == "deprecated-from-not-older" and pos % 3 == 2
        if std_part:
            # a node of the standard part of a partnered library: its versions are those of the standard schema
            pool = [x for x in nodes if _get_attr(x, "inLibrary") is None]
        else:
            pool = nodes_l
        leaves = [x for x in pool if not x.findall("node") and _get_attr(x, "deprecatedFrom") is None]
        n = pick(leaves)
        if n is None:
            return None
        val = "9.9.9" if fault == "deprecated-from-unknown" else (sver if pos % 2 == 0 else "99.0.0")
        if fault == "deprecated-from-not-older" and lib:
            val = std_ver if std_part else sver
        _attr(n, "deprecatedFrom", [val])
        desc = f"{n.findtext('name')} deprecatedFrom {val}" + (" (standard part)" if std_part else "")
    elif fault in ("conversion-factor-not-positive", "conversion-factor-not-numeric"):
        if lib or "conversionFactor" not in attr_defs:
            return None
        targets = units + root.findall("unitModifierDefinitions/unitModifierDefinition")
        n = pick(targets)
        if n is None:
            return None
        val = ["0", "-1.5", "0.0"][pos % 3] if fault.endswith("positive") else ["abc", "1,5", "ten"][pos % 3]
        a = _get_attr(n, "conversionFactor")
        if a is None:
            _attr(n, "conversionFactor", [val])
        else:
            a.find("value").text = val
        desc = f"{n.findtext('name')} = {val}"
    elif fault == "default-units-not-in-class":
        if lib:
            return None
        n = pick(uclasses)
        if n is None:
            return None
        other_units = [u.findtext("name") for uc in uclasses if uc is not n for u in uc.findall("unit")]
        mine = {u.findtext("name") for u in n.findall("unit")}
        val = "zzNoSuchUnit" if pos % 2 == 0 else next(x for x in other_units if x not in mine)
        a = _get_attr(n, "defaultUnits")
        if a is None:
            _attr(n, "defaultUnits", [val])
        else:
            a.find("value").text = val
        desc = f"{n.findtext('name')} -> {val}"
    elif fault == "unknown-allowed-character":
        if lib or "allowedCharacter" not in attr_defs:
            return None
        n = pick(vclasses + units)
        if n is None:
            return None
        a = _get_attr(n, "allowedCharacter")
        if a is None:
            _attr(n, "allowedCharacter", ["zzNoSuchCharacterClass"])
        else:
            ET.SubElement(a, "value").text = "zzNoSuchCharacterClass"
        desc = n.findtext("name")
    elif fault == "foreign-in-library":
        if "inLibrary" not in attr_defs:
            return None
        n = pick(nodes_l)
        if n is None:
            return None
        a = _get_attr(n, "inLibrary")
        # foreign names: unrelated, and near misses of the schema's own library name (part of it, or containing it)
        names = ["otherlib"] + ([lib[:3], lib[1:], lib + "x", lib.upper()] if lib else ["x"])
        foreign = names[pos % len(names)]
        if a is None:
            _attr(n, "inLibrary", [foreign])
        else:
            a.find("value").text = foreign
        desc = f"{n.findtext('name')} inLibrary={foreign}"
    elif fault in ("hed-id-out-of-range", "hed-id-changed", "hed-id-malformed"):
        if version != "8.3.0" and not (fault == "hed-id-out-of-range" and version == "score_2.0.0"):
            return None
        if not (fault == "hed-id-out-of-range" and pos % 2 == 0) and version == "8.3.0":
            root.set("version", "8.4.0")        # (the 'changed since the last release' rule needs a later version)
        n = pick(nodes)
        if n is None:
            return None
        a = _get_attr(n, "hedId")
        if a is None:
            return None
        old = a.find("value").text
        if fault == "hed-id-out-of-range":
            a.find("value").text = ["HED_0099999", "HED_0000000", "HED_0000001", "HED_0090000"][(pos // 2) % 4]
        elif fault == "hed-id-changed":
            num = int(old[4:])
            a.find("value").text = "HED_%07d" % (num + 1 if num % 2 else num - 1)
        else:
            a.find("value").text = "HED_12AB"
        desc = f"{n.findtext('name')}: {old} -> {a.find('value').text}"
    else:
        raise ValueError(fault)
    del rng
    return ET.tostring(root, encoding="unicode"), desc


def check_seeded(case, rec):
    from hed.schema import from_string
    got = seed_fault(case["version"], case["fault"], case["pos"], case.get("exhaustive", False))
    if got is None:
        rec.count("not-applicable", f"{case['version']}:{case['fault']}")
        return False
    text, desc = got
    case = dict(case, where=desc)
    env.clear_hed_caches()
    try:
        schema = from_string(text, ".xml")
        with_w = schema.check_compliance(check_for_warnings=True)
        without = schema.check_compliance(check_for_warnings=False)
    except Exception as ex:  # noqa
        from hed.errors.exceptions import HedFileError
        if isinstance(ex, HedFileError) and case["fault"] == "duplicate-node":
            rec.count("duplicate-rejected-at-load", case["version"])
            return True
        key = None
        if type(ex).__name__ == "AttributeError" and "defaultUnits" in str(desc):
            key = "default-units-on-non-unit-class"
        elif type(ex).__name__ == "AttributeError" and str(desc).split(" ")[0] in ("unitClass", "valueClass"):
            key = "class-attribute-on-non-tag"
        rec.violation(f"loading / compliance checking the seeded schema raised {type(ex).__name__}",
                      dict(case, message=str(ex)[:200]), key=key)
        return True
    codes = {i["code"] for i in with_w}
    if case["fault"] in CONTROLS:
        rec.mon("legal-edit-not-reported")
        rec.count("control", case["fault"])
        # (some released schemas carry issues of that code of their own: only one about the edited node counts)
        edited = str(desc).split(" ")[0]
        if any(i["code"] == CONTROLS[case["fault"]] and edited in i["message"] for i in with_w):
            rec.violation(f"legal edit ({case['fault']}) reported as {CONTROLS[case['fault']]}", case)
        return True
    rec.mon("seeded-fault-has-code")
    rec.count("fault", case["fault"])
    if CODES[case["fault"]] not in codes:
        rec.violation(f"seeded fault ({case['fault']}) not reported as {CODES[case['fault']]}",
                      dict(case, observed=sorted(codes - {"SCHEMA_PRERELEASE_VERSION_USED"})))
    rec.mon("warnings-off-only-errors")
    if any(i["severity"] != 1 for i in without):
        rec.violation("check_compliance with warnings off returned an issue that is not an error",
                      dict(case, observed=sorted({i["code"] for i in without if i["severity"] != 1})))
    return True


def run_shard(shard, rec):
    from hed.schema import load_schema
    if shard["kind"] == "released":
        v = shard["version"]
        rec.mon("released-schema-no-error")
        rec.case(("released", v))
        rec.case(("released-b", v))
        try:
            schema = load_schema(env.xml_path(v))
            issues = schema.check_compliance(check_for_warnings=True)
            without = schema.check_compliance(check_for_warnings=False)
        except Exception as ex:  # noqa
            rec.violation(f"compliance check of a released schema raised {type(ex).__name__}", dict(kind="released", version=v))
            return
        errs = sorted({i["code"] for i in issues if i["severity"] == 1})
        if errs:
            rec.violation("a released standard / partnered schema does not pass the compliance check",
                          dict(kind="released", version=v, observed=errs))
        if any(i["severity"] != 1 for i in without):
            rec.violation("check_compliance with warnings off returned an issue that is not an error",
                          dict(kind="released", version=v))
        rec.sample(dict(version=v, warnings=sorted({i["code"] for i in issues})))
        return
    if shard["kind"] == "group":
        check_group(shard["versions"], rec)
        return
    if shard["kind"] == "tsv-duplicate":
        for pos in range(shard["n"]):
            case = dict(kind="tsv-duplicate", version=shard["version"], pos=pos)
            rec.case(("tsv-duplicate", shard["version"], pos))
            check_tsv_duplicate(case, rec)
        return
    for pos in range(shard["start"], shard["start"] + shard["n"]):
        case = dict(kind="seeded", version=shard["version"], fault=shard["fault"], pos=pos, exhaustive=shard["exhaustive"])
        if check_seeded(case, rec):
            rec.case((case["version"], case["fault"], pos))
            if pos == shard["start"] and shard["start"] % 10 == 0:
                rec.sample(case)


def finalize(merged, tier, inconclusive):
    seen = merged.hist.get("fault", {})
    for f in CODES:
        if seen.get(f, 0) < 5:
            inconclusive.append(f"fault kind '{f}' was seeded {seen.get(f, 0)} times (< 5)")


def replay(case, rec):
    if case.get("kind") == "seeded":
        check_seeded(case, rec)
    elif case.get("kind") == "group":
        check_group(case["versions"], rec)
    elif case.get("kind") == "tsv-duplicate":
        check_tsv_duplicate(case, rec)
    else:
        run_shard(dict(kind="released", version=case["version"]), rec)
