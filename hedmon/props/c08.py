"""C08 Sidecar validation is total and flags each structural fault.

A: arbitrary JSON objects (values of every JSON type to depth 3, HED-flavoured keys and strings) must validate without
raising. B: well-typed sidecars built from valid strings must draw no error; one injected structural fault must draw
an error with that rule's code (table taken from the registrations in error_messages.py).
"""
import copy
import io
import json

from hedmon.core import env
from hedmon.gen import annot, tables
from hedmon.oracle import schema_xml

ID = "C08"
LEVEL = "exploration"
RULE = ("A: random JSON objects over str/int/float/bool/null/list/object to depth 3 with HED-flavoured keys (HED, Levels, "
        "n/a, column names) and strings (valid annotations, '#', '{ref}', blanks) at every position. B: valid sidecars from "
        "the C06 generator (categorical/value/ignored columns, references, optional definitions column) and each with one "
        "of 16 structural faults. non-trivial = document with >= 1 HED key (A) or any B case; distinct = distinct JSON text")
ASSUMPTIONS = ["fault -> code table follows the registrations in hed/errors/error_messages.py",
               "documents whose top level is not a JSON object are outside the property (BIDS sidecars are objects); "
               "they are generated, counted and not judged"]
MIN_MONITOR_EVALS = {"total-no-exception": 3000, "valid-no-error": 300, "fault-has-code": 1500, "validator-reused": 200}
FAULTS = ["category-value-not-string", "hed-entry-number", "hed-entry-list", "hed-entry-null", "hed-string-no-pound",
          "two-pounds-in-value", "pound-in-category", "empty-map", "empty-string", "column-named-HED",
          "nested-HED-key", "na-category-key", "unbalanced-brace", "nested-brace", "unknown-ref", "self-ref", "chained-ref",
          "value-entry-blank"]
CODE = {"category-value-not-string": "wrongHedDataType", "hed-entry-number": "sidecarUnknownColumn",
        "hed-entry-list": "sidecarUnknownColumn", "hed-entry-null": "sidecarUnknownColumn",
        "hed-string-no-pound": "PLACEHOLDER_INVALID", "two-pounds-in-value": "PLACEHOLDER_INVALID",
        "pound-in-category": "PLACEHOLDER_INVALID", "empty-map": "blankValueString", "empty-string": "blankValueString",
        "value-entry-blank": "PLACEHOLDER_INVALID", "column-named-HED": "SIDECAR_INVALID", "nested-HED-key": "SIDECAR_INVALID", "na-category-key": "SIDECAR_INVALID",
        "unbalanced-brace": "SIDECAR_BRACES_INVALID", "nested-brace": "SIDECAR_BRACES_INVALID",
        "unknown-ref": "SIDECAR_BRACES_INVALID", "self-ref": "SIDECAR_BRACES_INVALID", "chained-ref": "SIDECAR_BRACES_INVALID"}
VERSIONS = ["8.3.0", "8.2.0"]


def shards(tier, seed):
    na = {"quick": 5000, "thorough": 300000}[tier]
    nb = {"quick": 500, "thorough": 20000}[tier]
    out = [dict(kind="A", n=500, stream=i) for i in range(0, na, 500)]
    out += [dict(kind="B", n=50, stream=i, version=VERSIONS[(i // 50) % 2]) for i in range(0, nb, 50)]
    return out


KEYS = ["HED", "Levels", "Description", "trial_type", "n/a", "onset", "response", "a", "{x}", "", "rt", "HED "]
STRS = ["Red", "Label/#", "Red, Blue", "{response}", "({rt}), Green", "", "n/a", "#", "Label/#, Item-count/#", "(Red",
        "{", "}", "{HED}", "Def/X", "(Definition/X, (Red))", "Zzunknown", "{{a}}", "Label/# {trial_type}", " ", "\t"]


def rand_json(rng, depth, as_object=False):
    r = rng.random()
    if depth <= 0:
        r = min(r, 0.69)
    if as_object or r >= 0.85:
        return {rng.choice(KEYS): rand_json(rng, depth - 1) for _ in range(rng.randrange(0, 4))}
    if r < 0.4:
        return rng.choice(STRS)
    if r < 0.5:
        return rng.randrange(-3, 100)
    if r < 0.55:
        return rng.random() * 10
    if r < 0.62:
        return rng.choice([True, False])
    if r < 0.7:
        return None
    return [rand_json(rng, depth - 1) for _ in range(rng.randrange(0, 3))]


def classify_exception(doc, ex):
    name = type(ex).__name__
    if name == "AttributeError" and isinstance(doc, dict) and any(not isinstance(v, dict) for v in doc.values()):
        return "non-object-column-entry"
    if name == "KeyError":
        return "ref-in-untyped-string"
    return None


def validate_doc(doc, version):
    from hed.models.sidecar import Sidecar
    schema = env.schema(version)
    return Sidecar(io.StringIO(json.dumps(doc))).validate(schema)


def check_total(case, rec):
    doc = case["doc"]
    if not isinstance(doc, dict):
        rec.count("rejected-at-load", type(doc).__name__)
        return
    rec.mon("total-no-exception")
    try:
        issues = validate_doc(doc, case["version"])
    except Exception as ex:  # noqa
        rec.violation(f"sidecar validation raised {type(ex).__name__}", case, key=classify_exception(doc, ex))
        return
    if not isinstance(issues, list) or any(not isinstance(i, dict) or "code" not in i for i in issues):
        rec.violation("sidecar validation did not return a list of issues", case)


_previous_valid = {}


def check_expect(case, rec):
    try:
        issues = validate_doc(case["doc"], case["version"])
    except Exception as ex:  # noqa
        rec.violation(f"sidecar validation raised {type(ex).__name__} ({case['fault']})", case,
                      key=classify_exception(case["doc"], ex))
        return
    errs = sorted({i["code"] for i in issues if i["severity"] == 1})
    if case["fault"] == "none":
        rec.mon("valid-no-error")
        if errs:
            rec.violation("well-typed sidecar built from valid strings draws an error", dict(case, observed=errs))
        # validated again, and with a caller's list of extra definitions that is reused from call to call
        try:
            import io as _io
            import json as _json
            from hed.models.sidecar import Sidecar
            from hed.models.definition_dict import DefinitionDict
            schema = env.schema(case["version"])
            extras = [DefinitionDict(["(Definition/Zzextra-def, (Event))"], schema)]
            runs = []
            for _ in range(3):
                sc = Sidecar(_io.StringIO(_json.dumps(case["doc"])))
                runs.append(sorted({i["code"] for i in sc.validate(schema, extra_def_dicts=extras) if i["severity"] == 1}))
            rec.mon("revalidated-with-shared-extras")
            if len(extras) != 1 or any(r != errs for r in runs):
                rec.violation("validating with a reused list of extra definitions changes the list or the verdict",
                              dict(case, observed=runs, extras_len=len(extras)))
        except Exception as ex:  # noqa
            rec.violation(f"validating with extra definitions raised {type(ex).__name__}", case)
        # one validator object used for the sidecar validated before this one and then for this one
        prev = case.get("before") or _previous_valid.get(case["version"])
        _previous_valid[case["version"]] = case["doc"]
        if prev is not None:
            rec.mon("validator-reused")
            try:
                from hed.validator.sidecar_validator import SidecarValidator
                sv = SidecarValidator(schema)
                sv.validate(Sidecar(_io.StringIO(_json.dumps(prev))))
                again = sorted({i["code"] for i in sv.validate(Sidecar(_io.StringIO(_json.dumps(case["doc"])))) if i["severity"] == 1})
                if again != errs:
                    rec.violation("a sidecar's verdict depends on the sidecar its validator saw before",
                                  dict(case, before=prev, observed=again))
            except Exception as ex:  # noqa
                rec.violation(f"a validator used for a second sidecar raised {type(ex).__name__}", dict(case, before=prev))
    else:
        rec.mon("fault-has-code")
        rec.count("fault", case["fault"])
        if CODE[case["fault"]] not in errs:
            rec.violation(f"structural fault ({case['fault']}) not reported as {CODE[case['fault']]}", dict(case, observed=errs))


def inject(doc, kinds, fault, rng):
    """Return a faulty deep copy of a valid sidecar, or None if not applicable."""
    d = copy.deepcopy(doc)
    cats = [c for c, k in kinds.items() if k == "categorical"]
    vals = [c for c, k in kinds.items() if k == "value"]
    igns = [c for c, k in kinds.items() if k == "ignored"]
    bearing = cats + vals
    import re
    def _texts(c):
        h = d[c]["HED"]
        return list(h.values()) if isinstance(h, dict) else [h]
    has_ref = {c: any("{" in t for t in _texts(c) if isinstance(t, str)) for c in bearing}
    if fault == "category-value-not-string":
        if not cats:
            return None
        c = rng.choice(cats)
        k = rng.choice(list(d[c]["HED"]))
        d[c]["HED"][k] = rng.choice([3, 1.5, True, ["Red"], {"x": "Red"}])
    elif fault in ("hed-entry-number", "hed-entry-list", "hed-entry-null", "hed-string-no-pound"):
        if not bearing:
            return None
        c = rng.choice(bearing)
        d[c]["HED"] = {"hed-entry-number": rng.choice([7, 2.5, True]), "hed-entry-list": ["Red", "Blue"],
                       "hed-entry-null": None, "hed-string-no-pound": "Red, Blue"}[fault]
        if fault == "hed-entry-null":
            pass
    elif fault == "two-pounds-in-value":
        if not vals:
            return None
        c = rng.choice(vals)
        if rng.random() < 0.5:
            d[c]["HED"] = d[c]["HED"] + ", Label/#"
        else:
            # the surplus '#' inside the same tag
            d[c]["HED"] = d[c]["HED"].replace("#", rng.choice(["##", "#-#", "# #"]), 1)
    elif fault == "pound-in-category":
        if not cats:
            return None
        c = rng.choice(cats)
        k = rng.choice(list(d[c]["HED"]))
        d[c]["HED"][k] = d[c]["HED"][k] + ", Label/#"
    elif fault == "empty-map":
        if not cats:
            return None
        d[rng.choice(cats)]["HED"] = {}
    elif fault == "empty-string":
        if not cats:
            return None
        c = rng.choice(cats)
        d[c]["HED"][rng.choice(list(d[c]["HED"]))] = ""
    elif fault == "column-named-HED":
        d["HED"] = rng.choice([{"HED": {"a": "Red"}}, {"Description": "x"}, {}, "Red", ["Red"], 3, True, None])
    elif fault == "value-entry-blank":
        if not vals:
            return None
        d[rng.choice(vals)]["HED"] = rng.choice(["", " ", "   "])
    elif fault == "nested-HED-key":
        name = rng.choice(igns) if igns else "extra_col"
        d[name] = {"Levels": {"a": {"HED": "Red"}}} if rng.random() < 0.5 else {"Details": [{"HED": "Red"}]}
    elif fault == "na-category-key":
        if not cats:
            return None
        c = rng.choice(cats)
        d[c]["HED"]["n/a"] = "Gray"
    elif fault in ("unbalanced-brace", "nested-brace", "unknown-ref", "self-ref", "chained-ref"):
        hosts = [c for c in cats if not has_ref[c]]
        if not hosts:
            return None
        c = rng.choice(hosts)
        k = rng.choice(list(d[c]["HED"]))
        others = [x for x in bearing if x != c and not has_ref[x]]
        # is c itself referenced by somebody? then adding a ref to c makes a chain as well (still an error)
        if fault == "unbalanced-brace":
            d[c]["HED"][k] += rng.choice([", {" + (others[0] if others else "HED"), ", " + (others[0] if others else "HED") + "}"])
        elif fault == "nested-brace":
            d[c]["HED"][k] += ", {{" + (others[0] if others else "HED") + "}}"
        elif fault == "unknown-ref":
            d[c]["HED"][k] += ", {nosuchcolumn}"
        elif fault == "self-ref":
            d[c]["HED"][k] += ", {" + c + "}"
        else:
            if not others:
                return None
            o = others[0]
            third = [x for x in bearing if x not in (c, o) and not has_ref[x]]
            inner = rng.choice(third + ["HED"])            # the inner reference may be the reserved {HED}
            if kinds[o] == "categorical":
                ok = rng.choice(list(d[o]["HED"]))
                d[o]["HED"][ok] += ", {" + inner + "}"
            else:
                d[o]["HED"] += ", {" + inner + "}"
            d[c]["HED"][k] += ", {" + o + "}"
    return d


def run_shard(shard, rec):
    rng = rec.rng
    if shard["kind"] == "A":
        rng.seed(f"c08-A-{shard['stream']}-{rng.random()}")
        for _ in range(shard["n"]):
            doc = rand_json(rng, 3, as_object=rng.random() < 0.93)
            case = dict(kind="A", doc=doc, version=rng.choice(VERSIONS))
            text = json.dumps(doc, sort_keys=True)
            rec.case(text, nontrivial='"HED' in text)
            check_total(case, rec)
            if rng.random() < 0.002:
                rec.sample(doc)
        return
    rng.seed(f"c08-B-{shard['stream']}-{rng.random()}")
    v = shard["version"]
    gen = annot.AnnotGen(schema_xml.load(v), rng)
    for _ in range(shard["n"]):
        gen.defs = []
        with_defs = rng.random() < 0.3
        if with_defs:
            gen.make_defs(rng.randrange(1, 3))
        try:
            b = tables.gen_bundle(gen, rng)
        except RuntimeError:
            rec.discard()
            continue
        doc, kinds = b["sidecar"], b["kinds"]
        if with_defs:
            doc["definitions"] = {"HED": {f"d{i}": s for i, s in enumerate(gen.def_strings())}}
        case = dict(kind="B", doc=doc, version=v, fault="none")
        rec.case(json.dumps(doc, sort_keys=True))
        check_expect(case, rec)
        check_total(dict(kind="A", doc=doc, version=v), rec)
        if rng.random() < 0.02:
            rec.sample(doc)
        for fault in FAULTS:
            bad = inject(doc, kinds, fault, rng)
            if bad is None:
                rec.count("fault-not-applicable", fault)
                continue
            case = dict(kind="B", doc=bad, version=v, fault=fault)
            rec.case(json.dumps(bad, sort_keys=True))
            check_expect(case, rec)


def finalize(merged, tier, inconclusive):
    seen = merged.hist.get("fault", {})
    for f in FAULTS:
        if seen.get(f, 0) < 5:
            inconclusive.append(f"fault kind '{f}' was exercised {seen.get(f, 0)} times (< 5)")


def replay(case, rec):
    if case["kind"] == "A":
        check_total(case, rec)
    else:
        check_expect(case, rec)
