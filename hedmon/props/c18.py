"""C18 Backups restore byte-for-byte and are never half-valid   (level: fault_enumeration).

Crash enumeration: create_backup / run_remodel_backup.main run in a forked child with every file-system step counted
(mkdir, open-for-write, each 64 kB copy chunk, copystat, each write of the JSON record, close); for k = 1..N the child
is killed immediately before step k; a fresh BackupManager then inspects the tree. Histories: modify / delete /
remodel / restore[tasks] sequences against a path->bytes model, with an audit-hook trace of what a restore writes.
"""
import json
import os
import random
import shutil
import zlib

from hedmon.core import env, faults

ID = "C18"
LEVEL = "fault_enumeration"
RULE = ("generated data trees of 2-12 events files (0-200 kB, nested directories, BIDS-style and task_X names); every "
        "file-system step of backup creation (API and CLI) is a crash point, all are enumerated per tree; histories of 3-8 "
        "operations over {modify, delete, remodel, restore, restore[tasks], second backup of the same name}. non-trivial = "
        "crash point inside a copy or inside the record write, or a history with a restore after a change; distinct = "
        "distinct (tree, crash step) or (tree, history)")
ASSUMPTIONS = ["a crash is modelled as process death immediately before a file-system step (os._exit); data already "
               "written is assumed durable (no lost page cache)", "copies are performed in 64 kB chunks in the crashing child",
               "a manager that raises on construction counts as 'does not list the backup'"]
MIN_MONITOR_EVALS = {"crash-point": 100, "crash-inside-copy": 10, "crash-inside-record": 5, "restore-byte-identical": 40,
                     "task-restore-touches-only-tasks": 12, "task-remodel-leaves-other-tasks": 12, "remodel-twice-equals-once": 10, "same-name-not-overwritten": 15,
                     "second-backup-leaves-first-alone": 10, "partial-backup-twice-equals-once": 5}
WATCHDOG_S = {"quick": 900, "thorough": 5400}
OPS_MODEL = [{"operation": "rename_columns", "description": "x",
              "parameters": {"column_mapping": {"trial_type": "event_type"}, "ignore_missing": True}},
             {"operation": "remove_columns", "description": "x", "parameters": {"column_names": ["response"],
                                                                               "ignore_missing": True}}]


def EXHAUSTIVE(tier):
    return "every file-system step of each observed backup creation is used as a crash point"


def shards(tier, seed):
    nt = {"quick": 4, "thorough": 40}[tier]
    nh = {"quick": 80, "thorough": 3000}[tier]
    out = [dict(kind="crash", tree=i, via=("cli" if i % 2 else "api")) for i in range(nt)]
    out += [dict(kind="history", n=10, stream=i) for i in range(0, nh, 10)]
    return out


def make_tree(root, rng, big=True):
    """Write a data tree; return dict relpath -> bytes of the events files."""
    files = {}
    nf = rng.randrange(2, 13)
    for i in range(nf):
        sub = rng.choice([f"sub-{rng.randrange(1, 4):02d}", f"sub-CTL{rng.randrange(1, 3)}", "sub-Pilot_a"])
        task = rng.choice(["A", "B", "rest"])
        style = rng.choice(["task-", "task_"])
        d = rng.choice([sub, f"{sub}/ses-1/eeg", f"{sub}/eeg", "", f"{sub}/ses-Pre/EEG", f"{sub}/Run 2 (retest)",
                        f"task_{rng.choice(['A', 'B', 'rest'])}_sessions", f"{sub}/task-{rng.choice(['A', 'B'])}_old"])
        name = f"{sub}_{style}{task}_run-{i}_events.tsv"
        rows = ["onset\tduration\ttrial_type\tresponse"]
        n = rng.choice([0, 3, 40, 4000 if big else 60, 9000 if big else 80])
        for k in range(n):
            rows.append(f"{k * 0.5}\t0.25\t{rng.choice(['go', 'stop'])}\t{rng.choice(['left', 'right', 'n/a'])}")
        data = ("\n".join(rows) + "\n").encode()
        p = os.path.join(root, d, name)
        os.makedirs(os.path.dirname(p), exist_ok=True)
        with open(p, "wb") as f:
            f.write(data)
        files[os.path.relpath(p, root)] = data
    with open(os.path.join(root, "dataset_description.json"), "w") as f:
        json.dump({"Name": "x", "BIDSVersion": "1.8.0"}, f)
    with open(os.path.join(root, "participants.tsv"), "w") as f:
        f.write("participant_id\nsub-01\n")
    return files


def inspect(root, name, originals):
    """Outcome of a fresh BackupManager after a (possibly interrupted) creation."""
    from hed.tools.remodeling.backup_manager import BackupManager
    from hed.errors.exceptions import HedFileError
    try:
        bm = BackupManager(root)
    except HedFileError as ex:
        return "not-listed:HedFileError:" + str(ex.code), None
    except Exception as ex:  # noqa
        return "not-listed:raises-" + type(ex).__name__, None
    b = bm.get_backup(name)
    if not b:
        return "not-listed", None
    bad = []
    try:
        paths = bm.get_backup_files(name)
        origs = bm.get_backup_files(name, original_paths=True)
    except Exception as ex:  # noqa
        return "listed", [f"get_backup_files raised {type(ex).__name__}"]
    for bp, op in zip(paths, origs):
        rel = os.path.relpath(op, os.path.realpath(root))
        if not os.path.isfile(bp):
            bad.append(f"missing {rel}")
            continue
        with open(bp, "rb") as f:
            data = f.read()
        if rel not in originals or data != originals[rel]:
            bad.append(f"differs {rel}")
    return "listed", bad


def run_crash(shard, rec):
    rng = random.Random(f"c18-crash-{shard['tree']}-{rec.rng.random()}")
    base = os.path.join(env.scratch(), f"c18-{os.getpid()}")
    shutil.rmtree(base, ignore_errors=True)
    root = os.path.join(base, "data")
    os.makedirs(root)
    originals = make_tree(root, rng)
    name = rng.choice(["default_back", "my_backup"])
    file_list = [os.path.join(os.path.realpath(root), r) for r in sorted(originals)]
    via = shard["via"]

    def create():
        if via == "api":
            from hed.tools.remodeling.backup_manager import BackupManager
            return BackupManager(root).create_backup(file_list, backup_name=name)
        from hed.tools.remodeling.cli import run_remodel_backup
        return run_remodel_backup.main([root, "-bn", name, "-x", "derivatives"])

    def reset():
        shutil.rmtree(os.path.join(root, "derivatives"), ignore_errors=True)
    reset()
    dry = faults.run_with_crash(create, root, None)
    case0 = dict(kind="crash", via=via, files=sorted(originals), sizes=[len(originals[k]) for k in sorted(originals)])
    if dry["status"] != "done" or not dry["steps"]:
        rec.violation(f"backup creation did not complete in the dry run ({dry['status']})", case0)
        return
    outcome, bad = inspect(root, name, originals)
    if outcome != "listed" or bad:
        rec.violation("completed backup is not listed or its files differ from the originals", dict(case0, outcome=outcome, bad=bad))
        return
    n = dry["steps"]
    kinds = {s[0]: s[1] for s in dry["log"]}
    hist = {}
    for k in range(1, n + 1):
        reset()
        res = faults.run_with_crash(create, root, k)
        rec.mon("crash-point")
        what = kinds.get(k, "?")
        if what == "copy-chunk":
            rec.mon("crash-inside-copy")
        if what in ("write", "close") or (what == "open-w"):
            rec.mon("crash-inside-record")
        if res["status"] != "crashed":
            rec.violation(f"harness: child did not crash at step {k}/{n} ({res['status']})", dict(case0, step=k))
            continue
        outcome, bad = inspect(root, name, originals)
        hist[outcome.split(":")[0] + ":" + what] = hist.get(outcome.split(":")[0] + ":" + what, 0) + 1
        rec.count("outcome", outcome)
        if outcome == "listed" and bad:
            rec.violation("after an interrupted creation the manager lists a backup whose recorded files are missing or "
                          "incomplete", dict(case0, step=k, step_kind=what, bad=bad[:5]))
        # the data files themselves must never be touched by backup creation
        for rel, data in originals.items():
            with open(os.path.join(root, rel), "rb") as f:
                if f.read() != data:
                    rec.violation("backup creation altered a data file", dict(case0, step=k, file=rel))
                    break
    rec.bulk(n, sum(1 for k in range(1, n + 1) if kinds.get(k) in ("copy-chunk", "write", "close", "copystat")))
    rec.sample(dict(case0, steps=n, step_kinds=[kinds[k] for k in sorted(kinds)][:60], outcomes=hist))
    rec.count("crash-points-per-tree", str(n))
    shutil.rmtree(base, ignore_errors=True)


def tree_bytes(root, rels):
    out = {}
    for r in rels:
        p = os.path.join(root, r)
        if os.path.isfile(p):
            with open(p, "rb") as f:
                out[r] = f.read()
        else:
            out[r] = None
    return out


def run_history_case(case, rec):
    """case: dict(seed, ops=[...]) - the tree and history are regenerated from the seed."""
    from hed.tools.remodeling.backup_manager import BackupManager
    from hed.tools.remodeling.cli import run_remodel, run_remodel_restore, run_remodel_backup
    rng = random.Random(case["seed"])
    base = os.path.join(env.scratch(), f"c18h-{os.getpid()}")
    shutil.rmtree(base, ignore_errors=True)
    root = os.path.join(base, "data")
    if zlib.crc32(str(case["seed"]).encode()) % 3 == 0:
        # the data root reached through a symbolic link (a study directory linked into a work area)
        os.makedirs(os.path.join(base, "study_v2"))
        os.symlink(os.path.join(base, "study_v2"), root)
        rec.count("root-kind", "symbolic-link")
    else:
        os.makedirs(root)
        rec.count("root-kind", "plain")
    try:
        originals = make_tree(root, rng, big=False)
        rels = sorted(originals)
        model_path = os.path.join(base, "model.json")
        with open(model_path, "w") as f:
            json.dump(OPS_MODEL, f)
        name = "default_back"
        mgr = BackupManager(root)                      # one manager object kept for the whole history
        if rng.random() < 0.5:
            run_remodel_backup.main([root, "-x", "derivatives"])
        else:
            mgr.create_backup([os.path.join(os.path.realpath(root), r) for r in rels], backup_name=name)
        # a backup of a selection only, and the remodeler run over the whole tree with it: whatever it does with the
        # files that are not in that backup, doing it twice gives what doing it once gives
        if len(rels) >= 2 and rng.random() < 0.3:
            part = rels[:max(1, len(rels) // 2)]
            BackupManager(root).create_backup([os.path.join(os.path.realpath(root), r) for r in part], backup_name="part_back")
            swap_path = os.path.join(base, "swap.json")
            with open(swap_path, "w") as f:
                json.dump([{"operation": "rename_columns", "description": "x", "parameters": {
                    "column_mapping": {"trial_type": "response", "response": "trial_type"}, "ignore_missing": True}}], f)
            states = []
            for _run in range(2):
                try:
                    run_remodel.main([root, swap_path, "-bn", "part_back", "-x", "derivatives"])
                except Exception:  # noqa   (refusing files that are not in the backup is fine)
                    pass
                states.append(tree_bytes(root, rels))
            rec.mon("partial-backup-twice-equals-once")
            if states[0] != states[1]:
                rec.violation("with a backup of a selection, running the remodeler twice differs from running it once",
                              dict(case, ops=["partial-backup"]))
                return
            BackupManager(root).restore_backup("part_back", verbose=False)
            for r in rels:                              # put the files outside the selection back by hand
                with open(os.path.join(root, r), "wb") as f:
                    f.write(originals[r])
        # a second, legitimately empty backup (a selection that matched nothing)
        empty_name = "empty_back"
        BackupManager(root).create_backup([], backup_name=empty_name)
        empty_dir = os.path.join(root, "derivatives", "remodel", "backups", empty_name)

        def dir_state(dname):
            return {os.path.relpath(os.path.join(d0, f), dname): open(os.path.join(d0, f), "rb").read()
                    for d0, _, fs in os.walk(dname) for f in fs}
        empty_state = dir_state(empty_dir)
        backup_dir = os.path.join(root, "derivatives", "remodel", "backups", name)
        backup_state = {os.path.relpath(os.path.join(d, f), backup_dir): open(os.path.join(d, f), "rb").read()
                        for d, _, fs in os.walk(backup_dir) for f in fs}
        ops = []
        for _ in range(rng.randrange(3, 9)):
            op = rng.choice(["modify", "modify", "delete", "remodel", "restore", "restore-tasks", "backup-again",
                             "remodel-twice", "second-backup-same-manager", "remodel-tasks"])
            ops.append(op)
            case_now = dict(case, ops=list(ops))
            if op == "modify":
                r = rng.choice(rels)
                p = os.path.join(root, r)
                how = rng.choice(["overwrite", "append", "truncate", "same-size", "same-size-keep-times"])
                rec.count("modify-kind", how)
                if how.startswith("same-size") and os.path.exists(p) and os.path.getsize(p) > 0:
                    # an in-place edit that keeps the length; the second form also keeps the time stamps, as an
                    # rsync -t / cp -p of an edited copy over the file would
                    st = os.stat(p)
                    with open(p, "r+b") as f:
                        data = bytearray(f.read())
                        for _k in range(rng.randrange(1, 4)):
                            i = rng.randrange(len(data))
                            data[i] = ord("x") if data[i] != ord("x") else ord("y")
                        f.seek(0)
                        f.write(bytes(data))
                    if how == "same-size-keep-times":
                        os.utime(p, ns=(st.st_atime_ns, st.st_mtime_ns))
                else:
                    with open(p, "ab" if how == "append" else "wb") as f:
                        if how not in ("truncate", "same-size", "same-size-keep-times"):
                            f.write(b"changed\t1\n" * rng.randrange(1, 50))
            elif op == "delete":
                r = rng.choice(rels)
                p = os.path.join(root, r)
                if os.path.exists(p):
                    os.remove(p)
            elif op in ("remodel", "remodel-twice"):
                missing = [r for r in rels if not os.path.exists(os.path.join(root, r))]
                try:
                    run_remodel.main([root, model_path, "-ns", "-x", "derivatives"])
                    first = tree_bytes(root, rels)
                    if op == "remodel-twice":
                        run_remodel.main([root, model_path, "-ns", "-x", "derivatives"])
                        second = tree_bytes(root, rels)
                        rec.mon("remodel-twice-equals-once")
                        if first != second:
                            rec.violation("running the remodeler twice differs from running it once", case_now)
                            return
                except Exception as ex:  # noqa
                    rec.violation(f"run_remodel raised {type(ex).__name__} with a valid backup", case_now)
                    return
                del missing
            elif op == "remodel-tasks":
                # the remodeler run for some tasks only (it restores those files from the backup first): the files of
                # the other tasks are left as they are
                tasks = rng.sample(["A", "B", "rest"], rng.randrange(1, 3))
                before = tree_bytes(root, rels)
                try:
                    run_remodel.main([root, model_path, "-ns", "-x", "derivatives", "-t"] + tasks)
                except Exception as ex:  # noqa
                    rec.violation(f"run_remodel for some tasks raised {type(ex).__name__} with a valid backup", case_now)
                    return
                rec.mon("task-remodel-leaves-other-tasks")
                now = tree_bytes(root, rels)
                for r in rels:
                    mine = any(("task_" + t) in os.path.basename(r) or ("task-" + t) in os.path.basename(r) for t in tasks)
                    if not mine and now[r] != before[r]:
                        rec.violation("the remodeler run for some tasks changed a file of another task",
                                      dict(case_now, tasks=tasks, file=r))
                        return
            elif op == "restore":
                if rng.random() < 0.5:
                    run_remodel_restore.main([root])
                else:
                    BackupManager(root).restore_backup(name, verbose=False)
                rec.mon("restore-byte-identical")
                now = tree_bytes(root, rels)
                if now != originals:
                    bad = [r for r in rels if now[r] != originals[r]]
                    rec.violation("after a full restore a backed-up file differs from its content at backup time",
                                  dict(case_now, files=bad[:5]))
                    return
            elif op == "restore-tasks":
                # (task names that no file carries: nothing at all is to be restored)
                tasks = rng.sample(["A", "B", "rest", "nogo", "Z9"], rng.randrange(1, 3))
                before = tree_bytes(root, rels)
                with faults.Tracer(root) as log:
                    if zlib.crc32(repr((case["seed"], len(ops))).encode()) % 2 == 0:
                        run_remodel_restore.main([root, "-t"] + tasks)
                        rec.count("task-restore-entry", "command-line")
                    else:
                        BackupManager(root).restore_backup(name, task_names=tasks, verbose=False)
                        rec.count("task-restore-entry", "manager")
                if not any(("task_" + t) in os.path.basename(r) for t in tasks for r in rels):
                    rec.count("task-restore-entry", "no-file-of-the-requested-tasks")
                written = {os.path.relpath(os.path.realpath(e[2]), os.path.realpath(root)) for e in log if e[0] == "shutil.copyfile"}
                written |= {os.path.relpath(os.path.realpath(e[1]), os.path.realpath(root)) for e in log if e[0] == "open-w"}
                rec.mon("task-restore-touches-only-tasks")
                foreign = [w for w in written if not any(("task_" + t) in os.path.basename(w) or ("task-" + t) in os.path.basename(w)
                                                         for t in tasks)]
                if foreign:
                    rec.violation("a task-restricted restore wrote a file outside the requested tasks",
                                  dict(case_now, tasks=tasks, files=foreign[:5]))
                    return
                now = tree_bytes(root, rels)
                for r in rels:
                    mine = any(("task_" + t) in os.path.basename(r) or ("task-" + t) in os.path.basename(r) for t in tasks)
                    if not mine and now[r] != before[r]:
                        rec.violation("a task-restricted restore changed a file of another task", dict(case_now, file=r))
                        return
                    if r in written and now[r] != originals[r]:
                        rec.violation("a file restored by a task-restricted restore differs from its backup-time content",
                                      dict(case_now, file=r))
                        return
            elif op == "second-backup-same-manager":
                # the manager that made (or first listed) the default backup makes another one under a new name
                rec.mon("second-backup-leaves-first-alone")
                present = [r for r in rels if os.path.exists(os.path.join(root, r))]
                mgr.create_backup([os.path.join(os.path.realpath(root), r) for r in present],
                                  backup_name=f"second_{len(ops)}")
                now_state = {os.path.relpath(os.path.join(d, f), backup_dir): open(os.path.join(d, f), "rb").read()
                             for d, _, fs in os.walk(backup_dir) for f in fs}
                if now_state != backup_state:
                    rec.violation("creating a backup under another name changed the files of the first backup", case_now)
                    return
                sec_dir = os.path.join(root, "derivatives", "remodel", "backups", f"second_{len(ops)}", "backup_root")
                for r in present:
                    p2 = os.path.join(sec_dir, r)
                    if not os.path.exists(p2) or open(p2, "rb").read() != open(os.path.join(root, r), "rb").read():
                        rec.violation("a second backup does not hold the files as they were when it was made", case_now)
                        return
            elif op == "backup-again":
                rec.mon("same-name-not-overwritten")
                res = BackupManager(root).create_backup([os.path.join(os.path.realpath(root), r) for r in rels
                                                         if os.path.exists(os.path.join(root, r))], backup_name=name)
                now_state = {os.path.relpath(os.path.join(d, f), backup_dir): open(os.path.join(d, f), "rb").read()
                             for d, _, fs in os.walk(backup_dir) for f in fs}
                if res is not False or now_state != backup_state:
                    rec.violation("a second backup with an existing name returned True or altered the first backup", case_now)
                    return
                try:
                    run_remodel_backup.main([root, "-x", "derivatives"])
                    rec.violation("run_remodel_backup with an existing backup name did not refuse", case_now)
                    return
                except Exception:  # noqa  (HedFileError BackupExists expected)
                    pass
                now_state = {os.path.relpath(os.path.join(d, f), backup_dir): open(os.path.join(d, f), "rb").read()
                             for d, _, fs in os.walk(backup_dir) for f in fs}
                if now_state != backup_state:
                    rec.violation("run_remodel_backup altered an existing backup", case_now)
                    return
                # the empty backup is a backup like any other
                res = BackupManager(root).create_backup([os.path.join(os.path.realpath(root), r) for r in rels
                                                         if os.path.exists(os.path.join(root, r))], backup_name=empty_name)
                if res is not False or dir_state(empty_dir) != empty_state:
                    rec.violation("a second backup under the name of an existing empty backup returned True or wrote files",
                                  case_now)
                    return
        # every history ends with a full restore
        BackupManager(root).restore_backup(name, verbose=False)
        rec.mon("restore-byte-identical")
        now = tree_bytes(root, rels)
        if now != originals:
            rec.violation("after a full restore a backed-up file differs from its content at backup time",
                          dict(case, ops=ops, files=[r for r in rels if now[r] != originals[r]][:5]))
        case["ops"] = ops
    except Exception as ex:  # noqa
        # every step of a history is legal: no manager, backup, restore or remodel call in it may raise
        rec.violation(f"a step of a legal backup / restore history raised {type(ex).__name__}",
                      dict(case, ops=list(locals().get("ops") or []), message=str(ex)[:200]))
    finally:
        shutil.rmtree(base, ignore_errors=True)


def run_shard(shard, rec):
    if shard["kind"] == "crash":
        run_crash(shard, rec)
        return
    for k in range(shard["n"]):
        case = dict(kind="history", seed=f"c18-h-{shard['stream']}-{k}-{rec.rng.random()}")
        run_history_case(case, rec)
        rec.case((case["seed"], tuple(case.get("ops", []))))
        if rec.rng.random() < 0.05:
            rec.sample(dict(ops=case.get("ops")))


def replay(case, rec):
    if case.get("kind") == "history":
        run_history_case(dict(kind="history", seed=case["seed"]), rec)
    else:
        print("crash cases are replayed by re-running the check (trees are regenerated from the seed)")


def finalize(merged, tier, inconclusive):
    got = merged.hist.get("root-kind", {}).get("symbolic-link", 0)
    if got < 8:
        inconclusive.append(f"histories on a data root reached through a symbolic link: {got} (< 8)")
    got = merged.hist.get("task-restore-entry", {}).get("no-file-of-the-requested-tasks", 0)
    if got < 5:
        inconclusive.append(f"task-restricted restores naming only tasks that no file carries: {got} (< 5)")
