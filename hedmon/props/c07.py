"""C07 File-level validation equals row-by-row string validation, with true locations.

Differential monitor (file-level vs string-level validation of the same rows), location checks against the
generated table, and a permutation relation (issues keyed by the identity of the generating row).
"""
import copy
import os
import io
import json

from hedmon.core import env
from hedmon.gen import annot, tables
from hedmon.oracle import schema_xml, hedparse

ID = "C07"
LEVEL = "exploration"
RULE = ("tables from the C06 generator (1-3 HED-bearing columns, references, n/a, unknown keys) with and without an onset "
        "column, cells valid or carrying one C01 fault, Duration/Delay groups with accepted unit spellings, "
        "Onset/Offset/Inset groups of declared definitions, equal-onset rows; validated as TabularInput (DataFrame and TSV) "
        "and SpreadsheetInput; each file also validated after 2-4 row permutations. non-trivial = table with >= 2 rows and "
        ">= 1 issue or temporal group; distinct = distinct (sidecar, table, definitions)")
ASSUMPTIONS = ["'individually error-free cell' is decided with hed's own basic checks on the cell (relational monitor)",
               "TEMPORAL_TAG_ERROR is excluded from the row-equality relation (C10 decides the temporal pass)",
               "rows whose onset, or the effective time of one of whose Delay groups, coincides with another row or delayed group "
               "are excluded from the equality relation (hed joins them and labels the first row), not from the others; "
               "effective times use hed's own unit conversion (checked by C11)",
               "a row holding Delay groups is compared only when its string-level errors are the sum of the errors of "
               "its parts (no error exists only between a delayed group and the rest of the row)"]
MIN_MONITOR_EVALS = {"no-exception": 500, "row-equals-string-validation": 800, "cell-errors-present": 100,
                     "location-well-formed": 500, "fault-located": 100, "permutation-relation": 300,
                     "delay-row-equals-string-validation": 100}
VERSIONS = ["8.3.0", "8.2.0", "score_2.0.0"]
CELL_FAULTS = ["unknown-tag", "extension-forbidden", "requires-child", "bad-unit", "bad-value", "repeated-tag",
               "repeated-group", "empty-group", "undeclared-def", "double-comma", "extra-close-paren", "bracket-char",
               "stray-placeholder", "taggroup-outside-group"]


HOSTILE_ALPHA = ["Red", "Blue", " ", ",", "(", ")", "/"]


def hostile_cells(maxlen):
    import itertools
    out = []
    for ln in range(1, maxlen + 1):
        for t in itertools.product(HOSTILE_ALPHA, repeat=ln):
            s = "".join(t)
            if s.strip():
                out.append(s)
    return out


def shards(tier, seed):
    n = {"quick": 800, "thorough": 40000}[tier]
    cells = len(hostile_cells(4 if tier == "quick" else 5))
    hostile = [dict(kind="hostile", start=i, stop=min(i + 400, cells), maxlen=4 if tier == "quick" else 5, n=0,
                    version="8.3.0", perms=0, stream=-1 - i) for i in range(0, cells, 400)]
    return hostile + [dict(n=50, stream=i, version=VERSIONS[(i // 50) % len(VERSIONS)], perms=2 if tier == "quick" else 4)
            for i in range(0, n, 50)]


def make_case(gen, rng):
    gen.make_defs(rng.randrange(2, 4))
    defs = gen.def_strings()
    kind = rng.choice(["tabular", "tabular", "tabular-tsv", "spreadsheet", "tabular-labels", "spreadsheet-xlsx",
                       "spreadsheet-labels", "tabular-path"])
    b = tables.gen_bundle(gen, rng, nrows=rng.randrange(2, 7), valid_cells=rng.random() < 0.7, empty_cells=False,
                          with_onset=rng.random() < 0.7)
    cols = b["columns"]
    if "HED" not in cols:
        cols.append("HED")
        for r in b["rows"]:
            r.append("n/a")
    hi = cols.index("HED")
    faults = []
    na_mentions = []
    for ri, row in enumerate(b["rows"]):
        q = rng.random()
        if q < 0.3 and gen.defs:
            saved = set(gen.used)
            g = gen.temporal_group()
            gen.used = saved
            if g is not None:
                extra = annot.render([g], rng)
                row[hi] = extra if row[hi] in ("n/a", "") else row[hi] + ", " + extra
        elif q < 0.47 and "onset" in cols and "Delay" in gen.top:
            # several Delay groups in one row (each is validated at its own effective time); some carry an error
            # that only full-string validation finds (a tag repeated inside the delayed group)
            try:
                groups = []
                dn = gen.sp["Delay"]
                for _ in range(rng.randrange(2, 4)):
                    inner = gen.plain_group(2)
                    if rng.random() < 0.4:
                        inner["kids"].append(copy.deepcopy(inner["kids"][0]))
                    groups.append(annot.group([annot.tag(gen.spell(dn), "/" + gen._time_value(dn), dn.path, "delay"),
                                               inner], "duration-group"))
                extra = annot.render(groups, rng)
                row[hi] = extra if row[hi] in ("n/a", "") else row[hi] + ", " + extra
            except RuntimeError:
                pass
        elif q < 0.68:
            try:
                items = gen.annotation(depth=2, temporal=False, size=rng.randrange(1, 3), reset=False)
                m = annot.mutate(gen, items, rng.choice(CELL_FAULTS), rng)
            except RuntimeError:
                m = None
            if m:
                row[hi] = m["text"]
                if rng.random() < 0.3 and "description" in gen.o.by_short:
                    # free text that mentions n/a: the cell is not an n/a cell and takes part like any other
                    row[hi] += ", Description/Recorded as n/a"
                    na_mentions.append(ri)
                faults.append(dict(row=ri, col="HED", code=m["code"], kind=m["kind"]))
    # a scope opened in one row and closed in the next; half the time late in a long recording with times 0.1 ms apart
    plain_defs = [d for d in gen.defs if not d["takes_value"]]
    if "onset" in cols and len(b["rows"]) >= 2 and plain_defs and "Onset" in gen.top and rng.random() < 0.25:
        d = rng.choice(plain_defs)
        i0 = rng.randrange(0, len(b["rows"]) - 1)
        for ri, marker in ((i0, "Onset"), (i0 + 1, "Offset")):
            row = b["rows"][ri]
            extra = f"(Def/{d['name']}, {marker})"
            row[hi] = extra if row[hi] in ("n/a", "") else row[hi] + ", " + extra
        if rng.random() < 0.5:
            oi = cols.index("onset")
            for ri, row in enumerate(b["rows"]):
                row[oi] = repr(round(5000.0 + (ri + 1) * 0.0001, 6))
        scope_pair = True
    else:
        scope_pair = False
    # a fault inside a sidecar entry: every row selecting that key carries it, in a column that is not the first one
    cats = [c for c, k in b["kinds"].items() if k == "categorical" and c in cols]
    if not kind.startswith("spreadsheet") and cats and not tables.refs_of(b) and rng.random() < 0.3:
        c = rng.choice(cats)
        key = rng.choice(list(b["sidecar"][c]["HED"]))
        try:
            items = gen.annotation(depth=2, temporal=False, size=rng.randrange(1, 3), reset=False)
            m = annot.mutate(gen, items, rng.choice(CELL_FAULTS), rng)
        except RuntimeError:
            m = None
        if m:
            b["sidecar"][c]["HED"][key] = m["text"]
            ci = cols.index(c)
            for ri, row in enumerate(b["rows"]):
                if row[ci] == key:
                    faults.append(dict(row=ri, col=c, code=m["code"], kind=m["kind"]))
    if "onset" in cols and rng.random() < 0.25 and len(b["rows"]) >= 2:
        oi = cols.index("onset")
        k = rng.randrange(1, len(b["rows"]))
        b["rows"][k][oi] = b["rows"][k - 1][oi]          # two rows share an onset
    if "onset" in cols and rng.random() < 0.2 and len(b["rows"]) >= 2:
        # a row without a time (n/a onset), anywhere in the file; what it holds is validated like any row, and
        # temporal tags in it are reported on that very row
        oi = cols.index("onset")
        b["rows"][rng.randrange(len(b["rows"]))][oi] = "n/a"
    if kind.startswith("spreadsheet"):
        b = dict(b, sidecar={}, kinds={})
    blank_rows = []
    if kind == "spreadsheet-xlsx" and len(b["rows"]) >= 3 and rng.random() < 0.5 and \
            not any(all(c in ("n/a", "") for c in r) for r in b["rows"]):
        # (not when another row holds nothing either: written last it would be an empty trailing row, which is no row)
        # a completely empty worksheet row above other rows: it is a row of the file and counts in the row numbers
        k = rng.randrange(0, len(b["rows"]) - 1)
        b["rows"][k] = ["n/a"] * len(cols)
        blank_rows = [k]
        faults = [f for f in faults if f["row"] != k]
    return dict(kind=kind, bundle=b, defs=defs, faults=faults, blank_rows=blank_rows, scope_pair=scope_pair,
                na_mentions=len(na_mentions))


def build_input(case, rows=None):
    import pandas as pd
    from hed.models.tabular_input import TabularInput
    from hed.models.spreadsheet_input import SpreadsheetInput
    from hed.models.sidecar import Sidecar
    b = case["bundle"]
    rows = b["rows"] if rows is None else rows
    def relabel(df):
        # a frame whose index is not 0..n-1 (e.g. what is left after filtering or re-ordering another frame)
        n = len(df)
        lab = [3 * i + 7 for i in range(n)]
        lab = lab[n // 2:] + lab[:n // 2]
        df.index = lab
        return df
    if case["kind"] == "spreadsheet-xlsx":
        import openpyxl
        wb = openpyxl.Workbook()
        ws = wb.active
        ws.append(list(b["columns"]))
        for i, r in enumerate(rows):
            # an empty Excel cell is the usual way to write 'nothing here'
            if case.get("blank_rows") and all(c in ("n/a", "") for c in r):
                ws.append([None] * len(r))
                continue
            ws.append([None if (c in ("n/a", "") and (i + j) % 2 == 0) else c for j, c in enumerate(r)])
        if len(rows) % 2 == 0:
            # a second worksheet, selected when the workbook was saved: the first worksheet is still the one that is read
            ws2 = wb.create_sheet("notes")
            ws2.append(list(b["columns"]))
            for _k in range(len(rows) + 2):
                ws2.append(["Zzotherworksheet"] * len(b["columns"]))
            wb.active = 1
        path = os.path.join(env.scratch(), f"c07-{os.getpid()}.xlsx")
        wb.save(path)
        return SpreadsheetInput(path, tag_columns=["HED"], name="sheet")
    if case["kind"].startswith("spreadsheet"):
        df = pd.DataFrame(rows, columns=b["columns"])
        if case["kind"] == "spreadsheet-labels":
            df = relabel(df)
        return SpreadsheetInput(df, tag_columns=["HED"], name="sheet")
    sidecar = Sidecar(io.StringIO(json.dumps(b["sidecar"]))) if b["sidecar"] else None
    if case["kind"] == "tabular-path":
        # the file on disk, opened by name (the sidecar too)
        base = os.path.join(env.scratch(), f"c07-{os.getpid()}")
        with open(base + "_events.tsv", "w", encoding="utf-8", newline="") as f:
            f.write(tables.to_tsv(dict(b, rows=rows)))
        side = None
        if b["sidecar"]:
            with open(base + "_events.json", "w", encoding="utf-8") as f:
                json.dump(b["sidecar"], f)
            side = base + "_events.json"
        return TabularInput(base + "_events.tsv", side, name="events")
    if case["kind"] == "tabular-tsv":
        return TabularInput(io.StringIO(tables.to_tsv(dict(b, rows=rows))), sidecar, name="events")
    df = pd.DataFrame(rows, columns=b["columns"])
    if case["kind"] == "tabular-labels":
        df = relabel(df)
    return TabularInput(df, sidecar, name="events")


def err_codes(issues, skip_temporal=True):
    return sorted(i["code"] for i in issues if i["severity"] == 1 and not (skip_temporal and i["code"] == "TEMPORAL_TAG_ERROR"))


def issue_key(i, row_of=None):
    r = i.get("ec_row")
    if r is not None and row_of is not None:
        r = row_of(r)
    return (i["code"], i["severity"], r, str(i.get("ec_column")), str(i.get("ec_sidecarColumnName")),
            str(i.get("ec_sidecarKeyName")))


def check_case(case, rec):
    from hed.models.hed_string import HedString
    from hed.models.definition_dict import DefinitionDict
    from hed.validator.hed_validator import HedValidator
    schema = env.schema(case["version"])
    b = case["bundle"]
    cols = b["columns"]
    n = len(b["rows"])
    dd = DefinitionDict(case["defs"], schema)
    try:
        obj = build_input(case)
        issues = obj.validate(schema, extra_def_dicts=dd)
    except Exception as ex:  # noqa
        key = None
        if type(ex).__name__ == "ValueError" and "onset" in cols and any(
                row[cols.index("onset")] in ("n/a", "") for row in b["rows"]):
            key = "delay-in-timeless-row"
        elif case["kind"].endswith("-labels"):
            key = "frame-index-not-default"
        elif case["kind"] == "spreadsheet-xlsx" and type(ex).__name__ == "TypeError":
            key = "xlsx-empty-cell"
        elif type(ex).__name__ == "TypeError" and "delay/" in json.dumps(b["rows"]).casefold():
            key = "delay-unit-no-factor"
        rec.violation(f"file validation raised {type(ex).__name__}", case, key=key)
        return
    rec.mon("no-exception")
    # the same object validated again without the extra definitions, then with them once more: each run gives what a
    # fresh object gives
    if case["defs"] and case["kind"] in ("tabular", "tabular-tsv", "spreadsheet"):
        try:
            again_none = obj.validate(schema)
            again_dd = obj.validate(schema, extra_def_dicts=dd)
            fresh_none = build_input(case).validate(schema)
        except Exception as ex:  # noqa
            rec.violation(f"validating a table again raised {type(ex).__name__}", case)
            return
        rec.mon("revalidated-with-other-definitions")
        keys = lambda lst: sorted(issue_key(i) for i in lst)      # noqa
        if keys(again_none) != keys(fresh_none) or keys(again_dd) != keys(issues):
            rec.violation("validating a table again with other extra definitions does not give what a fresh table gives", case)
    try:
        obj2 = build_input(case)
        dfa = obj2.dataframe_a
        series = list(obj2.series_a)
        full_dd = obj2._mapper.get_def_dict(schema, dd)
    except Exception as ex:  # noqa
        rec.violation(f"assembly raised {type(ex).__name__}", case)
        return
    if len(dfa) != n or len(series) != n:
        rec.violation("the table as read does not have one row per row of the file", dict(case, rows_read=len(dfa)))
        return
    # ---- locations
    rec.mon("location-well-formed", len(issues))
    for i in issues:
        r = i.get("ec_row")
        if r is not None and not (2 <= r <= n + 1):
            rec.violation("issue labelled with a row outside 2..n+1", dict(case, issue_code=i["code"], ec_row=r),
                          key="frame-index-not-default" if case["kind"].endswith("-labels") else None)
            return
        c = i.get("ec_column")
        if c is not None and r is not None:
            if c not in list(dfa.columns) and c not in cols:
                rec.violation("issue names a column that is not in the file", dict(case, issue_code=i["code"], ec_column=str(c)))
                return
            hs = i.get("ec_HedString")
            if hs is not None and c in list(dfa.columns):
                cell_text = dfa[c].iloc[r - 2]
                if hs.get_original_hed_string() != cell_text:
                    rec.violation("(row, column) of an issue does not hold the text the issue was raised on",
                                  dict(case, issue_code=i["code"], ec_row=r, ec_column=str(c)))
                    return
    # ---- row by row
    hv = HedValidator(schema, def_dicts=full_dd)
    onset_col = cols.index("onset") if "onset" in cols else None
    onsets = [row[onset_col] for row in b["rows"]] if onset_col is not None else None
    isolated = isolated_rows(onsets, series, schema) if onsets is not None else None
    all_cell_errs = {}
    for r in range(n):
        cell_errs = {}
        for c in dfa.columns:
            cell = dfa[c].iloc[r]
            if not cell or cell == "n/a":
                continue
            try:
                ci = hv.run_basic_checks(HedString(cell, schema), allow_placeholders=False)
            except Exception as ex:  # noqa
                rec.violation(f"string-level basic checks raised {type(ex).__name__}", dict(case, row=r))
                return
            e = err_codes(ci, skip_temporal=False)
            if e:
                cell_errs[c] = e
        row_issues = [i for i in issues if i.get("ec_row") == r + 2]
        all_cell_errs[r] = cell_errs
        if cell_errs:
            rec.mon("cell-errors-present")
            for c, e in cell_errs.items():
                got = [i["code"] for i in row_issues if i.get("ec_column") == c and i["severity"] == 1]
                for code in set(e):
                    if got.count(code) < e.count(code):
                        rec.violation("an error of a cell is missing from the file-level issues of that row and column",
                                      dict(case, row=r, column=str(c), code=code))
            continue
        text = series[r]
        if onsets is not None:
            if not isolated[r]:
                continue
            if "delay/" in text.casefold():
                check_delay_row(case, rec, r, text, row_issues, schema, full_dd)
                continue
        rec.mon("row-equals-string-validation")
        try:
            si = HedString(text, schema, full_dd).validate(allow_placeholders=False) if text else []
        except Exception as ex:  # noqa
            rec.violation(f"string-level validation raised {type(ex).__name__}", dict(case, row=r))
            return
        want = err_codes(si)
        got = err_codes(row_issues)
        if want != got:
            rec.violation("error codes of a row differ between file-level and string-level validation",
                          dict(case, row=r, text=text, string_level=want, file_level=got))
    # ---- rows without a time: a temporal tag (Onset/Offset/Inset/Delay/Duration) is reported there and only there
    if onsets is not None:
        import re as _re
        timeless = [r for r in range(n) if onsets[r] in ("n/a", "")]
        if timeless:
            temporal = _re.compile(r"(^|[/,( ])(onset|offset|inset|delay/|duration/)", _re.I)
            for r in range(n):
                if all_cell_errs.get(r):
                    continue
                banned_here = [i for i in issues if i.get("ec_row") == r + 2 and i["code"] == "TEMPORAL_TAG_ERROR"
                               and "without an 'Onset' column and a time" in i["message"]]
                rec.mon("timeless-row-temporal-tags")
                has_temporal = bool(temporal.search(series[r] or ""))
                if r in timeless and has_temporal and not banned_here:
                    rec.violation("a temporal tag in a row without a time is not reported on that row", dict(case, row=r),
                                  key="timeless-row-mislabelled")
                if r not in timeless and banned_here:
                    rec.violation("a row that has a time is told that it has none", dict(case, row=r),
                                  key="timeless-row-mislabelled")
    # ---- faults are located (rows with a unique onset whose other cells are clean)
    for f in case["faults"]:
        if not case["kind"].startswith("spreadsheet") and "HED" in tables.refs_of(b):
            continue                                    # the HED cell is spliced into another column
        r = f["row"]
        if onsets is not None and not isolated[r]:
            continue
        if any(c != f["col"] for c in all_cell_errs.get(r, {})) or sum(1 for g in case["faults"] if g["row"] == r) != 1:
            continue
        rec.mon("fault-located")
        here = [i["code"] for i in issues if i.get("ec_row") == r + 2 and i["severity"] == 1]
        if f["code"] not in here:
            rec.violation(f"error of a faulty cell ({f['kind']}) not reported on its row",
                          dict(case, fault=f, observed=sorted(here)))
    # ---- permutation relation
    if onsets is not None and len(set(onsets)) == n and n >= 2:
        rng = __import__("random").Random(json.dumps(b["rows"]))
        base = sorted(issue_key(i, lambda x: x - 2) for i in issues)
        def _num(o):
            try:
                return float(o)
            except ValueError:
                return float("nan")              # a row without a time: the file counts as not ordered ("and defined")
        order0 = [_num(o) for o in onsets]
        for _ in range(case.get("perms", 2)):
            perm = list(range(n))
            rng.shuffle(perm)
            rows2 = [b["rows"][p] for p in perm]
            if case.get("blank_rows") and all(c in ("n/a", "") for c in rows2[-1]):
                continue                      # a trailing empty worksheet row does not exist in the file
            try:
                i2 = build_input(case, rows2).validate(schema, extra_def_dicts=dd)
            except Exception as ex:  # noqa
                rec.violation(f"validation of a row-permuted file raised {type(ex).__name__}", dict(case, perm=perm))
                break
            rec.mon("permutation-relation")
            if case.get("scope_pair"):
                rec.count("permuted", "scope-pair-rows")
            was_sorted = all(order0[i] <= order0[i + 1] for i in range(n - 1))
            o2 = [order0[p] for p in perm]
            is_sorted = all(o2[i] <= o2[i + 1] for i in range(n - 1))
            k2 = sorted(issue_key(i, lambda x: perm[x - 2] if 2 <= x <= n + 1 else x) for i in i2)
            unordered = ("ONSETS_UNORDERED", 10, None, "None", "None", "None")
            a = [k for k in base if k != unordered]
            bb = [k for k in k2 if k != unordered]
            if a != bb:
                rec.violation("issues change under a permutation of the rows (beyond row labels following the rows)",
                              dict(case, perm=perm), key="unsorted-ref-misaligned" if tables.refs_of(b) else None)
                break
            if (k2.count(unordered) != (0 if is_sorted else 1)) or (base.count(unordered) != (0 if was_sorted else 1)):
                rec.violation("out-of-order warning not issued exactly once for an unordered file", dict(case, perm=perm))
                break


def isolated_rows(onsets, series, schema):
    """hed joins everything that takes effect at one time (rows with equal onsets, and groups shifted there by a
    Delay tag) and labels the joint issues with the first row of the set. A row is judged only when neither its onset
    nor the effective time of any of its delayed groups coincides with another row or delayed group."""
    from hed.models.hed_string import HedString
    n = len(onsets)
    events = []                                    # (time, row)
    for r in range(n):
        try:
            t0 = float(onsets[r])
        except ValueError:
            continue
        events.append((t0, r))
        if "delay/" in (series[r] or "").casefold():
            try:
                for tg, _grp in HedString(series[r], schema).find_top_level_tags({"delay"}):
                    d = tg.value_as_default_unit()
                    if d is not None:
                        events.append((t0 + d, r))
            except Exception:  # noqa   (a row that does not parse: nothing of this file is judged by time)
                return [False] * n
    out = []
    for r in range(n):
        mine = [t for t, q in events if q == r]
        clash = any(abs(t - u) <= 1e-6 for t in mine for u, q in events if q != r)
        clash = clash or any(abs(mine[i] - mine[j]) <= 1e-6 for i in range(len(mine)) for j in range(i + 1, len(mine)))
        out.append(not clash)
    return out


def check_delay_row(case, rec, r, text, row_issues, schema, full_dd):
    """A row holding Delay groups: the groups are validated at their own effective time, so an error that only exists
    between a delayed group and the rest of the row may or may not be reported. When no such interaction exists (the
    errors of the whole annotation are the errors of the remainder plus those of every delayed group alone), the
    file-level codes of the row must still be exactly the string-level ones."""
    from hed.models.hed_string import HedString
    kids, ok = hedparse.parse(text)
    if not ok:
        return
    delayed, rest = [], []
    for k in kids:
        if k[0] == "G" and any(("/" + text[t[1]:t[2]].casefold()).find("/delay/") >= 0 for t in hedparse.tags_of(k[3])):
            delayed.append(text[k[1]:k[2]])
        else:
            rest.append(text[k[1]:k[2]])
    if not delayed:
        return
    try:
        whole = err_codes(HedString(text, schema, full_dd).validate(allow_placeholders=False))
        parts = []
        for piece in [", ".join(rest)] + delayed:
            if piece:
                parts += err_codes(HedString(piece, schema, full_dd).validate(allow_placeholders=False))
    except Exception as ex:  # noqa
        rec.violation(f"string-level validation raised {type(ex).__name__}", dict(case, row=r))
        return
    if sorted(parts) != whole:
        rec.count("delay-row", "interaction-skipped")
        return
    rec.mon("delay-row-equals-string-validation")
    rec.count("delay-row", f"{min(len(delayed), 3)} delayed group(s), errors={bool(whole)}")
    got = err_codes(row_issues)
    if got != whole:
        rec.violation("error codes of a row holding Delay groups differ between file-level and string-level validation",
                      dict(case, row=r, text=text, string_level=whole, file_level=got))


def make_nonames_case(gen, rng):
    """Spreadsheet without a header row: integer column identifiers, cell-level and row-level issues mixed."""
    gen.used = set()
    ncols = rng.randrange(2, 5)
    tagcols = sorted(rng.sample(range(ncols), rng.randrange(1, ncols + 1)))
    rows = []
    for _ in range(rng.randrange(1, 6)):
        row = []
        shared = gen.atom()
        for c in range(ncols):
            q = rng.random()
            if c not in tagcols:
                row.append(rng.choice(["x", "1", "n/a"]))
            elif q < 0.15:
                row.append("n/a")
            elif q < 0.45:
                row.append(annot.render([shared] + ([gen.atom()] if rng.random() < 0.5 else []), rng))   # repeated across columns
            elif q < 0.68:
                m = annot.mutate(gen, [gen.atom()], rng.choice(["unknown-tag", "bad-value", "empty-group", "double-comma"]), rng)
                row.append(m["text"] if m else "n/a")
            else:
                row.append(annot.render(gen.annotation(depth=2, temporal=False, size=rng.randrange(1, 3), reset=False), rng))
        rows.append(row)
    return dict(kind="spreadsheet-nonames", rows=rows, tagcols=tagcols)


def check_nonames(case, rec):
    from hed.models.spreadsheet_input import SpreadsheetInput
    schema = env.schema(case["version"])
    text = "\n".join("\t".join(r) for r in case["rows"]) + "\n"
    n = len(case["rows"])
    try:
        obj = SpreadsheetInput(io.StringIO(text), file_type=".tsv", has_column_names=False, tag_columns=case["tagcols"])
        issues = obj.validate(schema)
    except Exception as ex:  # noqa
        rec.violation(f"validation of a spreadsheet without column names raised {type(ex).__name__}", case,
                      key={"TypeError": "sort-issues-mixed-types", "IndexError": "duplicate-empty-groups"}.get(type(ex).__name__))
        return
    rec.mon("no-exception")
    rec.mon("location-well-formed", len(issues))
    for i in issues:
        r, c = i.get("ec_row"), i.get("ec_column")
        if r is not None and not (1 <= r <= n):
            rec.violation("issue labelled with a row outside 1..n (file without header)", dict(case, ec_row=r))
            return
        if c is not None and c not in case["tagcols"]:
            rec.violation("issue names a column that holds no annotation", dict(case, ec_column=str(c)))
            return
        if r is not None and c is not None and i.get("ec_HedString") is not None:
            if i["ec_HedString"].get_original_hed_string() != case["rows"][r - 1][c]:
                rec.violation("(row, column) of an issue does not hold the text the issue was raised on",
                              dict(case, ec_row=r, ec_column=c))
                return


def run_hostile(shard, rec):
    """Every string over a small delimiter alphabet as a cell: file validation must not raise."""
    cells = hostile_cells(shard["maxlen"])[shard["start"]:shard["stop"]]
    for i in range(0, len(cells), 40):
        chunk = cells[i:i + 40]
        for two in (False, True):
            rows = [[c, chunk[(k * 7 + 3) % len(chunk)]] if two else [c] for k, c in enumerate(chunk)]
            case = dict(kind="spreadsheet-nonames", rows=rows, tagcols=[0, 1] if two else [0], version=shard["version"])
            check_nonames(case, rec)
        rec.bulk(len(chunk) * 2, len(chunk) * 2)
    rec.count("input-kind", "hostile-cells", len(cells))


def run_shard(shard, rec):
    if shard.get("kind") == "hostile":
        run_hostile(shard, rec)
        return
    rng = rec.rng
    rng.seed(f"c07-{shard['stream']}-{rng.random()}")
    gen = annot.AnnotGen(schema_xml.load(shard["version"]), rng)
    for k in range(shard["n"] // 3):
        try:
            case = make_nonames_case(gen, rng)
        except RuntimeError:
            rec.discard()
            continue
        case["version"] = shard["version"]
        rec.case(json.dumps(case, sort_keys=True), len(case["rows"]) >= 2)
        check_nonames(case, rec)
        rec.count("input-kind", case["kind"])
    for k in range(shard["n"]):
        try:
            case = make_case(gen, rng)
        except RuntimeError:
            rec.discard()
            continue
        case["version"] = shard["version"]
        case["perms"] = shard["perms"]
        nt = len(case["bundle"]["rows"]) >= 2 and (bool(case["faults"]) or "onset" in json.dumps(case["bundle"]["rows"]).casefold())
        rec.case(json.dumps(case, sort_keys=True), nt)
        if case.get("na_mentions") and "onset" in case["bundle"]["columns"]:
            rec.count("cell-kind", "timed-row-cell-mentioning-na", case["na_mentions"])
        check_case(case, rec)
        rec.count("input-kind", case["kind"])
        rec.count("faults", str(len(case["faults"])))
        if rng.random() < 0.02:
            rec.sample(dict(kind=case["kind"], columns=case["bundle"]["columns"], rows=case["bundle"]["rows"][:3],
                            faults=case["faults"]))


def replay(case, rec):
    if case.get("kind") == "spreadsheet-nonames":
        check_nonames(case, rec)
    else:
        check_case(case, rec)


def finalize(merged, tier, inconclusive):
    seen = merged.hist.get("input-kind", {})
    for k in ("tabular", "tabular-tsv", "tabular-path", "tabular-labels", "spreadsheet", "spreadsheet-labels",
              "spreadsheet-xlsx", "spreadsheet-nonames", "hostile-cells"):
        if seen.get(k, 0) < 30:
            inconclusive.append(f"input kind '{k}' was exercised {seen.get(k, 0)} times (< 30)")
    got = merged.hist.get("permuted", {}).get("scope-pair-rows", 0)
    if got < 40:
        inconclusive.append(f"row permutations of files with an Onset row followed by its Offset row: {got} (< 40)")
    got = merged.hist.get("cell-kind", {}).get("timed-row-cell-mentioning-na", 0)
    if got < 25:
        inconclusive.append(f"faulty cells of timed rows that also mention n/a in free text: {got} (< 25)")
