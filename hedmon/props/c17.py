"""C17 Remodeling operations are pure functions of their parameters and input table.

Row-list reference models (gen/remodel.py), snapshots of input table / operation list / operation objects around
every run, history monitor (tables through one Dispatcher in several orders vs a fresh Dispatcher each),
invalid-list monitor (messages, no exception, CLI writes nothing).
"""
import copy
import io
import json
import os
import shutil

from hedmon.core import env
from hedmon.gen import remodel

ID = "C17"
LEVEL = "exploration"
RULE = ("operation lists of 1-4 operations from the JSON specification of {remove_rows, remove_columns, rename_columns, "
        "reorder_columns, factor_column, remap_columns, merge_consecutive, split_rows} with all flag settings and optional "
        "parameters present or absent, generated against the evolving column set so that every named column exists; 3 "
        "small tables each (n/a, numeric-looking and duplicate values) read the way the remodeler reads TSV files; 4 "
        "processing orders; plus lists broken in 10 ways. non-trivial = list with >= 2 operations or an optional "
        "parameter omitted; distinct = distinct (operations, tables)")
ASSUMPTIONS = ["row-list models in hedmon/gen/remodel.py encode each operation's documented meaning; cells are compared as "
               "numbers when both parse, else as strings; n/a == NaN",
               "values named in parameters are of the kind the column holds (typed as the remodeler reads the file)",
               "split_rows results are compared up to the order of rows with equal onset (sort stability is not specified)"]
MIN_MONITOR_EVALS = {"valid-list-accepted": 300, "result-equals-model": 800, "input-table-unchanged": 800,
                     "parameters-unchanged": 300, "operation-objects-unchanged": 300, "history-independent": 800,
                     "invalid-list-reported": 200, "cli-invalid-model-writes-nothing": 5}
_validator = None


def shards(tier, seed):
    n = {"quick": 400, "thorough": 20000}[tier]
    m = {"quick": 300, "thorough": 10000}[tier]
    out = [dict(kind="valid", n=50, stream=i) for i in range(0, n, 50)]
    out += [dict(kind="invalid", n=50, stream=i) for i in range(0, m, 50)]
    out.append(dict(kind="cli", n=15 if tier == "quick" else 150, stream=0))
    return out


def read_df(text):
    import pandas as pd
    return pd.read_csv(io.StringIO(text), sep="\t", header=0, keep_default_na=False, na_values=",null")


def frame_to_model(df):
    import pandas as pd
    import numpy as np
    cols = [str(c) for c in df.columns]
    rows = []
    for _, r in df.iterrows():
        d = {}
        for c, v in zip(cols, r.tolist()):
            if v is None or (isinstance(v, float) and np.isnan(v)) or v is pd.NA or (isinstance(v, str) and v == "n/a"):
                d[c] = None
            elif isinstance(v, (np.integer,)):
                d[c] = int(v)
            elif isinstance(v, (np.floating,)):
                d[c] = float(v)
            else:
                d[c] = v
        rows.append(d)
    return dict(columns=cols, rows=rows)


def cell_equal(a, b):
    if a is None or b is None:
        return a is None and b is None
    na = remodel.num(a) if not isinstance(a, bool) else None
    nb = remodel.num(b) if not isinstance(b, bool) else None
    if na is not None and nb is not None:
        return abs(na - nb) <= 1e-9 * max(1.0, abs(na), abs(nb))
    return str(a) == str(b)


def tables_equal(got, want, unordered_ties=False):
    if got["columns"] != want["columns"] or len(got["rows"]) != len(want["rows"]):
        return False
    g, w = got["rows"], want["rows"]
    if unordered_ties:
        key = lambda r: (remodel.num(r.get("onset")) if remodel.num(r.get("onset")) is not None else float("inf"),      # noqa
                         json.dumps({k: (None if v is None else (remodel.num(v) if remodel.num(v) is not None else str(v)))
                                     for k, v in r.items()}, sort_keys=True, default=str))
        g, w = sorted(g, key=key), sorted(w, key=key)
    return all(all(cell_equal(a[c], b[c]) for c in got["columns"]) for a, b in zip(g, w))


def snap_frame(df):
    return ([str(c) for c in df.columns], [str(t) for t in df.dtypes], df.astype(object).where(df.notna(), None).values.tolist())


def snap_obj(v):
    import pandas as pd
    if isinstance(v, pd.DataFrame):
        return ("DF",) + tuple(map(repr, snap_frame(v)))
    if hasattr(v, "col_map") and hasattr(v, "map_dict"):
        return ("KeyMap", repr(snap_frame(v.col_map)), repr(sorted(v.map_dict.items())), repr(sorted(v.count_dict.items())))
    try:
        return json.dumps(v, sort_keys=True, default=repr)
    except Exception:  # noqa
        return repr(v)


def snap_ops(disp):
    return [(type(op).__name__, {k: snap_obj(v) for k, v in vars(op).items()}) for op in disp.parsed_ops]


def classify(case, ex=None):
    ops = case["ops"]
    if isinstance(ex, Exception):
        kinds = [op["operation"] for op in ops]
        if isinstance(ex, ValueError) and "does not match length of index" in str(ex) and "remap_columns" in kinds:
            return "remap-hash-series"
        setd = any(op["operation"] == "merge_consecutive" and op["parameters"]["set_durations"] for op in ops)
        if isinstance(ex, IndexError) and setd:
            return "merge-empty-run"
        if isinstance(ex, TypeError) and "Invalid value" in str(ex) and setd:
            return "merge-int-duration"
    for op in ops:
        p = op["parameters"]
        k = op["operation"]
        if (k == "factor_column" and "factor_values" not in p) or (k == "merge_consecutive" and "match_columns" not in p) \
                or (k == "split_rows" and any("copy_columns" not in e for e in p["new_events"].values())):
            if ex is not None:
                return "optional-param-none"
    if any(op["operation"] == "reorder_columns" and op["parameters"]["keep_others"] for op in ops):
        return "reorder-keep-others-state"
    return None


def check_valid(case, rec):
    from hed.tools.remodeling.dispatcher import Dispatcher
    from hed.tools.remodeling.remodeler_validator import RemodelerValidator
    global _validator
    if _validator is None:
        _validator = RemodelerValidator()
    ops = case["ops"]
    ops_before = copy.deepcopy(ops)
    rec.mon("valid-list-accepted")
    try:
        msgs = _validator.validate(ops)
    except Exception as ex:  # noqa
        rec.violation(f"RemodelerValidator.validate raised {type(ex).__name__} on a list obeying the specification", case)
        return
    if msgs:
        rec.violation("operation list obeying the JSON specification is rejected", dict(case, messages=msgs[:3]))
        return
    tables = [remodel.table_from_tsv(t) for t in case["tables"]]
    try:
        want = [remodel.run_model(copy.deepcopy(t), ops) for t in tables]
    except remodel.ModelRaises:
        rec.discard()
        return
    unordered = any(op["operation"] == "split_rows" for op in ops)
    fresh = []
    for ti, text in enumerate(case["tables"]):
        df = read_df(text)
        before = snap_frame(df)
        try:
            disp = Dispatcher(copy.deepcopy(ops) if case.get("isolate_ops") else ops, data_root=None, backup_name=None)
            ops_snap = snap_ops(disp)
            out = disp.run_operations(df)
        except Exception as ex:  # noqa
            rec.violation(f"validated operation list raised {type(ex).__name__} on a table holding the named columns",
                          dict(case, table=ti), key=classify(case, ex))
            return
        got = frame_to_model(out)
        fresh.append(got)
        rec.mon("result-equals-model")
        if not tables_equal(got, want[ti], unordered):
            rec.violation("result differs from the table the operations prescribe",
                          dict(case, table=ti, observed=got, model=want[ti]), key=classify(case))
            return
        rec.mon("input-table-unchanged")
        if snap_frame(df) != before:
            rec.violation("run_operations changed the input table", dict(case, table=ti))
        rec.mon("operation-objects-unchanged")
        if snap_ops(disp) != ops_snap:
            rec.violation("an operation object's attributes changed during do_op", dict(case, table=ti), key=classify(case))
        rec.mon("parameters-unchanged")
        if ops != ops_before:
            rec.violation("the caller's operation list / parameters were changed", dict(case, table=ti), key=classify(case))
            ops = copy.deepcopy(ops_before)
            case = dict(case, ops=ops)
    # history: one dispatcher, several orders
    for order in ([0, 1, 2], [2, 1, 0], [1, 1, 0, 2, 0], [2, 2]):
        try:
            disp = Dispatcher(copy.deepcopy(ops_before), data_root=None, backup_name=None)
            for ti in order:
                out = frame_to_model(disp.run_operations(read_df(case["tables"][ti])))
                rec.mon("history-independent")
                if not tables_equal(out, fresh[ti], unordered):
                    rec.violation("result for a table depends on what the dispatcher processed before",
                                  dict(case, order=order, table=ti), key=classify(case))
                    return
        except Exception as ex:  # noqa
            rec.violation(f"dispatcher raised {type(ex).__name__} when processing tables in sequence",
                          dict(case, order=order), key=classify(case, ex))
            return


def check_invalid(case, rec):
    from hed.tools.remodeling.remodeler_validator import RemodelerValidator
    global _validator
    if _validator is None:
        _validator = RemodelerValidator()
    rec.mon("invalid-list-reported")
    rec.count("invalid-kind", case["why"])
    try:
        msgs = _validator.validate(case["ops"])
    except Exception as ex:  # noqa
        rec.violation(f"RemodelerValidator.validate raised {type(ex).__name__} on an invalid list ({case['why']})", case)
        return
    if not msgs or not all(isinstance(m, str) and m for m in msgs):
        rec.violation(f"invalid operation list ({case['why']}) not reported with messages", case)


def tree_state(root):
    out = {}
    for d, dirs, files in os.walk(root):
        for f in files:
            p = os.path.join(d, f)
            with open(p, "rb") as fh:
                out[os.path.relpath(p, root)] = fh.read()
        for x in dirs:
            out[os.path.relpath(os.path.join(d, x), root) + "/"] = None
    return out


def check_cli(case, rec):
    from hed.tools.remodeling.cli import run_remodel
    root = os.path.join(env.scratch(), f"c17cli-{os.getpid()}")
    shutil.rmtree(root, ignore_errors=True)
    os.makedirs(os.path.join(root, "sub-01"))
    try:
        for i, t in enumerate(case["tables"]):
            with open(os.path.join(root, "sub-01", f"sub-01_run-{i}_events.tsv"), "w") as f:
                f.write(t)
        model = os.path.join(env.scratch(), f"c17model-{os.getpid()}.json")
        with open(model, "w") as f:
            json.dump(case["ops"], f)
        before = tree_state(root)
        rec.mon("cli-invalid-model-writes-nothing")
        raised = False
        try:
            run_remodel.main([root, model, "-nb", "-ns"])
        except (ValueError, KeyError, TypeError, AttributeError):
            raised = True
        except SystemExit:
            raised = True
        except Exception:  # noqa
            raised = True
        after = tree_state(root)
        if not raised:
            rec.violation("run_remodel accepted a model file that fails validation", case)
        if before != after:
            rec.violation("run_remodel with an invalid model file changed the data tree (partial execution)", case)
    finally:
        shutil.rmtree(root, ignore_errors=True)


def run_shard(shard, rec):
    rng = rec.rng
    rng.seed(f"c17-{shard['kind']}-{shard['stream']}-{rng.random()}")
    for k in range(shard["n"]):
        base = remodel.gen_case(rng, optional=(k % 3 != 0))
        if not base["ops"]:
            rec.discard()
            continue
        if shard["kind"] == "valid":
            case = dict(kind="valid", **base)
            omitted = classify(case, ex=True) == "optional-param-none"
            rec.case(json.dumps(base, sort_keys=True), nontrivial=len(base["ops"]) >= 2 or omitted)
            check_valid(case, rec)
            for op in base["ops"]:
                rec.count("operation", op["operation"])
                if op["parameters"].get("integer_sources"):
                    rec.count("optional-parameter", "remap_columns:integer_sources")
            if rng.random() < 0.02:
                rec.sample(dict(ops=base["ops"], table=base["tables"][0]))
        else:
            bad, why = remodel.break_ops(rng, base["ops"])
            case = dict(kind=shard["kind"], ops=bad, why=why, tables=base["tables"])
            rec.case(json.dumps(bad, sort_keys=True, default=str))
            if shard["kind"] == "invalid":
                check_invalid(case, rec)
            else:
                if isinstance(bad, list):
                    check_cli(case, rec)


def finalize(merged, tier, inconclusive):
    seen = merged.hist.get("operation", {})
    for op in remodel.MODELS:
        if seen.get(op, 0) < 10:
            inconclusive.append(f"operation '{op}' was exercised {seen.get(op, 0)} times (< 10)")
    got = merged.hist.get("optional-parameter", {}).get("remap_columns:integer_sources", 0)
    if got < 8:
        inconclusive.append(f"remap_columns with integer_sources was exercised {got} times (< 8)")
    kinds = merged.hist.get("invalid-kind", {})
    if len(kinds) < 8:
        inconclusive.append(f"only {len(kinds)} kinds of invalid operation lists were exercised")


def replay(case, rec):
    k = case.get("kind")
    if k == "valid":
        check_valid(case, rec)
    elif k == "invalid":
        check_invalid(case, rec)
    else:
        check_cli(case, rec)
