"""C20 Temporal context of every event equals the set of processes ongoing at that time.

Reference interval model; every process carries a unique Label/Pnn so hed's base / contexts strings decode without
ambiguity. Observed on the real EventManager and HedTagManager.
"""
import re
import zlib

from hedmon.core import env
from hedmon.oracle import hedparse

ID = "C20"
LEVEL = "exploration"
RULE = ("valid event histories of 3-14 time points over definitions A, B, V/#: Onset/Offset processes (restarts, open at "
        "end), Duration groups in s/ms/minute/hour (ending exactly at a time point, between points, past the last row), "
        "Delay-shifted Onset and Duration groups, equal-onset rows, plain tags and empty rows; every process has a "
        "Label/Pnn, unique except that ~30 % of Duration processes are twins of an earlier one (same content text, "
        "compared as multisets). Histories are pre-validated with TabularInput.validate. non-trivial = history with >= 2 processes "
        "of which one spans another time point; distinct = distinct file content")
ASSUMPTIONS = ["interval model in this file; end of a Duration process computed with the same float operations as the "
               "property's 'start plus duration in default units' (unit factors from the schema XML oracle)",
               "rows that are blanked by merging equal onsets are 'don't care'; only the representative row of a time "
               "point is judged", "no Inset groups (not in the property's quantifier)", "schema 8.3.0"]
MIN_MONITOR_EVALS = {"context-equals-model": 1000, "base-equals-model": 1000, "remaining-annotation": 1000,
                     "event-context-group": 500, "unordered-rejected": 20, "manager-reused-with-other-type-list": 100}
DEFS = ["(Definition/A, (Red))", "(Definition/B, (Blue))", "(Definition/V/#, (Item-count/#))"]
# (the last two are "type" tags: an unfolding that is asked to remove a type takes them out, any other keeps them)
PLAIN = ["Green", "Square", "Sensory-event", "Agent-action", "Purple", "Circle", "Triangle", "Yellow",
         "Condition-variable/Fast", "Condition-variable/Slow"]
UNITS = [("s", 1.0), ("ms", 0.001), ("minute", 60.0), ("hour", 3600.0), ("seconds", 1.0), ("minutes", 60.0)]


def shards(tier, seed):
    n = {"quick": 600, "thorough": 30000}[tier]
    return [dict(n=100, stream=i) for i in range(0, n, 100)]


def fmt(x):
    return repr(float(x))


def gen_history(rng):
    """Build an effective-time plan, then realise it as file rows. Returns case dict (JSON-able)."""
    ntp = rng.randrange(3, 15)
    times = []
    t = rng.choice([0.0, 0.5, 1.0])
    for _ in range(ntp):
        times.append(t)
        t += rng.choice([0.25, 0.5, 1.0, 1.5, 2.0, 60.0])
    open_names = {}
    pid = [0]
    rows = []          # file rows: dict(onset, parts:[text])

    def newpid():
        pid[0] += 1
        return pid[0]
    plan = {i: [] for i in range(ntp)}     # tp index -> list of (text_without_delay, kind)
    procs = []                             # model processes: dict(pid, start_tp, end: ('tp', k)|('time', x)|('inf',))
    dur_contents = []                      # (pid, inner text, tp, sval) of Duration processes, for twins
    for i in range(ntp):
        used = set()
        for _ in range(rng.choice([0, 1, 1, 2, 3])):
            r = rng.random()
            if r < 0.4:
                name = rng.choice(["A", "B", "V/1", "V/2", "a", "v/1"])
                key = name.casefold()
                if key in used:
                    continue
                used.add(key)
                p = newpid()
                if key in open_names:                       # restart closes the open process
                    open_names[key]["end"] = ("tp", i)
                proc = dict(pid=p, start_tp=i, end=("inf",))
                open_names[key] = proc
                procs.append(proc)
                plan[i].append((f"Onset, Def/{name}, (Label/P{p}, {rng.choice(PLAIN)})", "onset"))
            elif r < 0.6 and open_names:
                key = rng.choice(sorted(open_names))
                if key in used:
                    continue
                used.add(key)
                open_names.pop(key)["end"] = ("tp", i)
                plan[i].append((f"Offset, Def/{key.upper() if rng.random() < 0.3 else key.capitalize() if '/' not in key else 'V/' + key.split('/')[1]}", "offset"))
            else:
                p = newpid()
                unit, fac = rng.choice(UNITS)
                mode = rng.random()
                if mode < 0.4 and i + 1 < ntp:               # end exactly at a later time point
                    k = rng.randrange(i + 1, ntp)
                    span = times[k] - times[i]
                elif mode < 0.8:
                    span = rng.choice([0.1, 0.3, 0.75, 1.25, 2.5, 7.0, 100.0])
                else:
                    span = 1e6                               # past the last row
                val = span / fac
                sval = repr(val) if val != int(val) else str(int(val))
                if "e" in sval or len(sval) > 14:
                    sval = str(round(val, 3))
                inner = f"(Label/P{p}, {rng.choice(PLAIN)})"
                if dur_contents and rng.random() < 0.3:
                    # a twin: another process with textually identical content (same label), listed once per process
                    tp_, inner_ = rng.choice(dur_contents)[:2]
                    if not any(c[1] == inner_ and c[2] == i and c[3] == (sval, unit) for c in dur_contents):
                        p, inner = tp_, inner_
                dur_contents.append((p, inner, i, (sval, unit)))
                procs.append(dict(pid=p, start_tp=i, end=("dur", sval, fac)))
                plan[i].append((f"Duration/{sval} {unit}, {inner}", "duration"))
    # realise: rows per time point; some groups delayed from an earlier time point's row
    tp_rows = {i: [[]] for i in range(ntp)}
    for i in range(ntp):
        for text, kind in plan[i]:
            if kind in ("onset", "duration") and i > 0 and rng.random() < 0.25:
                j = rng.randrange(0, i)
                d = times[i] - times[j]
                # the Delay tag may stand anywhere among the members of the group
                first, _, rest = text.partition(", ")
                tp_rows[j][0].append(rng.choice(["(" + f"Delay/{fmt(d)} s, " + text + ")",
                                                 "(" + first + f", Delay/{fmt(d)} s, " + rest + ")",
                                                 "(" + text + f", Delay/{fmt(d)} s)"]))
            else:
                if rng.random() < 0.2 and len(tp_rows[i]) < 2:
                    tp_rows[i].append([])
                rng.choice(tp_rows[i]).append("(" + text + ")")
    plain_model = {i: [] for i in range(ntp)}
    pool = list(PLAIN)
    for i in range(ntp):
        if rng.random() < 0.6:
            tg = rng.choice(pool)
            rng.choice(tp_rows[i]).append(tg)
            plain_model[i].append(tg)
    file_rows = []
    for i in range(ntp):
        for parts in tp_rows[i]:
            rng.shuffle(parts)
            file_rows.append([fmt(times[i]), ", ".join(parts) if parts else "n/a"])
    return dict(rows=file_rows, times=times, procs=procs, plain={str(k): v for k, v in plain_model.items()})


def pids_in(text):
    return sorted(int(x) for x in re.findall(r"Label/P(\d+)", text or ""))


def check_case(case, rec):
    import pandas as pd
    from hed.models.tabular_input import TabularInput
    from hed.models.definition_dict import DefinitionDict
    from hed.tools.analysis.event_manager import EventManager
    from hed.tools.analysis.hed_tag_manager import HedTagManager
    schema = env.schema("8.3.0")
    dd = DefinitionDict(DEFS, schema)
    df = pd.DataFrame(case["rows"], columns=["onset", "HED"])
    if len(case["rows"]) % 2 == 1:
        # a frame whose index is not 0..n-1 (what is left after filtering or re-ordering another frame)
        lab = [3 * i + 7 for i in range(len(df))]
        df.index = lab[len(lab) // 2:] + lab[:len(lab) // 2]
    try:
        issues = TabularInput(df.copy()).validate(schema, extra_def_dicts=dd)
    except Exception as ex:  # noqa
        rec.violation(f"pre-validation raised {type(ex).__name__}", case)
        return False
    errs = sorted({i["code"] for i in issues if i["severity"] == 1})
    if errs:
        rec.discard()
        rec.count("prevalidation-rejected", "/".join(errs))
        return False
    try:
        em = EventManager(TabularInput(df.copy()), schema, extra_defs=dd)
    except Exception as ex:  # noqa
        rec.violation(f"EventManager raised {type(ex).__name__} on a valid ordered file", case)
        return True
    onsets = [float(x) for x in em.onsets]
    if any(b < a for a, b in zip(onsets, onsets[1:])):
        rec.violation("EventManager.onsets not non-decreasing", case)
        return True
    # representative row of each time point
    reps, last = [], None
    for idx, t in enumerate(onsets):
        if last is None or abs(t - last) > 1e-9:
            reps.append(idx)
            last = t
    times = case["times"]
    eff_times = sorted(set(times))
    if len(reps) != len(eff_times) or any(abs(onsets[r] - t) > 1e-9 for r, t in zip(reps, eff_times)):
        rec.violation("time points of the event manager differ from the effective times of the rows", case)
        return True
    # model
    tp_time = {i: t for i, t in enumerate(times)}
    model_ctx, model_base = [], []
    for ti, t in enumerate(eff_times):
        ctx, base = [], []
        for p in case["procs"]:
            start = tp_time[p["start_tp"]]
            if p["end"][0] == "inf":
                end = float("inf")
            elif p["end"][0] == "tp":
                end = tp_time[p["end"][1]]
            else:
                end = float(start) + float(p["end"][1]) * p["end"][2]
            if start < t < end:
                ctx.append(p["pid"])
            if start == t:
                base.append(p["pid"])
        model_ctx.append(sorted(ctx))
        model_base.append(sorted(base))
    if zlib.crc32(repr(case["rows"]).encode()) % 3 == 0:
        # one event manager unfolded with a type list and then without one: the second result is that of a fresh manager
        rec.mon("manager-reused-with-other-type-list")
        try:
            def texts(objs0):
                return [hedparse.canon_text(str(o)) if o else "" for o in objs0]
            first = texts(HedTagManager(em, remove_types=["Condition-variable"]).get_hed_objs(include_context=True))
            second = texts(HedTagManager(em).get_hed_objs(include_context=True))
            em_f = EventManager(TabularInput(df.copy()), schema, extra_defs=dd)
            fresh_plain = texts(HedTagManager(em_f).get_hed_objs(include_context=True))
            em_g = EventManager(TabularInput(df.copy()), schema, extra_defs=dd)
            fresh_typed = texts(HedTagManager(em_g, remove_types=["Condition-variable"]).get_hed_objs(include_context=True))
        except Exception as ex:  # noqa
            rec.violation(f"unfolding one event manager twice raised {type(ex).__name__}", case)
            return True
        if any("condition-variable" in repr(x).casefold() for x in fresh_plain):
            rec.count("type-list-history", "type-tag-written-in-the-file")
        if second != fresh_plain or first != fresh_typed:
            rec.violation("unfolding an event manager gives another result after it was unfolded with another type list", case)
            return True
    tm = None
    try:
        tm = HedTagManager(em)
        objs = tm.get_hed_objs(include_context=True)
        objs_nc = tm.get_hed_objs(include_context=False)
    except Exception as ex:  # noqa
        rec.violation(f"HedTagManager raised {type(ex).__name__}", case)
        objs = objs_nc = None
    for ti, r in enumerate(reps):
        rec.mon("context-equals-model")
        got_ctx = pids_in(em.contexts[r])
        if got_ctx != model_ctx[ti]:
            rec.violation("context of a time point differs from the processes ongoing at that time",
                          dict(case, time_point=ti, observed=got_ctx, model=model_ctx[ti]))
            return True
        rec.mon("base-equals-model")
        got_base = pids_in(em.base[r])
        if got_base != model_base[ti]:
            rec.violation("processes listed as starting at a time point differ from the model",
                          dict(case, time_point=ti, observed=got_base, model=model_base[ti]))
            return True
        rec.mon("remaining-annotation")
        want_plain = hedparse.canon_text(", ".join(case["plain"][str(i)][0] for i, t in enumerate(times)
                                                   if t == eff_times[ti] and case["plain"][str(i)]))
        got_plain = hedparse.canon_text(str(em.hed_strings[r]))
        if got_plain != want_plain:
            rec.violation("remaining annotation of a time point is not the row's annotation without temporal groups",
                          dict(case, time_point=ti, observed=str(em.hed_strings[r])))
            return True
        if objs is not None:
            rec.mon("event-context-group")
            text = str(objs[r]) if objs[r] else ""
            text_nc = str(objs_nc[r]) if objs_nc[r] else ""
            has = "event-context" in text.casefold()
            if has != bool(model_ctx[ti]) or "event-context" in text_nc.casefold():
                rec.violation("Event-context group present/absent contrary to the model", dict(case, time_point=ti))
                return True
            if has:
                m = re.search(r"\(Event-context,\((.*)\)\)$", text)
                inside = pids_in(m.group(1)) if m else None
                if inside != model_ctx[ti] or pids_in(text) != sorted(model_ctx[ti] + model_base[ti]):
                    rec.violation("Event-context group content differs from the model context",
                                  dict(case, time_point=ti, observed=text))
                    return True
    rec.count("time-points", len(reps))
    rec.count("max-context-size", max((len(c) for c in model_ctx), default=0))
    return True


def check_unordered(case, rec):
    import pandas as pd
    from hed.models.tabular_input import TabularInput
    from hed.models.definition_dict import DefinitionDict
    from hed.tools.analysis.event_manager import EventManager
    from hed.errors.exceptions import HedFileError
    schema = env.schema("8.3.0")
    dd = DefinitionDict(DEFS, schema)
    df = pd.DataFrame(case["rows"], columns=["onset", "HED"])
    rec.mon("unordered-rejected")
    try:
        EventManager(TabularInput(df), schema, extra_defs=dd)
    except HedFileError:
        return
    except Exception as ex:  # noqa
        rec.violation(f"unordered file raised {type(ex).__name__} instead of HedFileError", case)
        return
    rec.violation("file whose onsets are not non-decreasing was accepted by the event manager", case)


def nontrivial(case):
    if len(case["procs"]) < 2:
        return False
    for p in case["procs"]:
        if p["end"][0] == "inf" or (p["end"][0] == "tp" and p["end"][1] > p["start_tp"] + 1) or p["end"][0] == "dur":
            return True
    return False


def run_shard(shard, rec):
    rng = rec.rng
    rng.seed(f"c20-{shard['stream']}-{rng.random()}")
    for k in range(shard["n"]):
        case = gen_history(rng)
        case["kind"] = "history"
        rec.case(case["rows"], nontrivial(case))
        check_case(case, rec)
        if rng.random() < 0.02:
            rec.sample(dict(rows=case["rows"], procs=case["procs"]))
        if k % 10 == 0 and len(case["rows"]) >= 3:
            rows = [list(r) for r in case["rows"]]
            i = rng.randrange(0, len(rows) - 1)
            j = rng.randrange(i + 1, len(rows))
            if float(rows[i][0]) != float(rows[j][0]):
                rows[i], rows[j] = rows[j], rows[i]
                ucase = dict(kind="unordered", rows=rows)
                rec.case(rows)
                check_unordered(ucase, rec)
            # late in a long recording, one row a small step back in time (small against the onset, not against zero)
            base, step = rng.choice([(2000.0, 0.01), (3600.25, 0.03), (86400.5, 0.25), (5000.0, 0.0001)])
            rows = [[repr(round(base + float(r[0]), 4)), r[1]] for r in case["rows"]]
            i = rng.randrange(1, len(rows))
            rows[i][0] = repr(round(float(rows[i - 1][0]) - step, 4))
            rec.count("unordered-kind", "small-step-back-at-a-late-onset")
            rec.case(rows)
            check_unordered(dict(kind="unordered", rows=rows), rec)


def finalize(merged, tier, inconclusive):
    got = merged.hist.get("unordered-kind", {}).get("small-step-back-at-a-late-onset", 0)
    if got < 20:
        inconclusive.append(f"files with a small step back at a late onset: {got} (< 20)")
    got = merged.hist.get("type-list-history", {}).get("type-tag-written-in-the-file", 0)
    if got < 30:
        inconclusive.append(f"event managers unfolded twice over a file with a type tag written in it: {got} (< 30)")
    if merged.evaluations and merged.discarded > 0.02 * merged.evaluations:
        inconclusive.append(f"{merged.discarded} of {merged.evaluations} generated histories were rejected by "
                            "pre-validation (> 2 %): generator and hed disagree on validity")


def replay(case, rec):
    if case.get("kind") == "unordered":
        check_unordered(case, rec)
    else:
        check_case(case, rec)
