"""C01 String validation verdict agrees with the HED rules.

Generator-side oracle: annotations valid by construction from the schema XML (gen/annot.py) must draw no
error; single-rule mutants must draw the rule's published code. Real code under test: HedString.validate.
"""
import random

from hedmon.core import env
from hedmon.gen import annot
from hedmon.oracle import schema_xml

ID = "C01"
LEVEL = "exploration"
RULE = ("annotations generated from the grammar in hedmon/gen/annot.py over the XML-oracle vocabulary of each bundled "
        "schema (plain tags in any suffix spelling/case, extensions, values per value class with accepted units, Def / "
        "Def-expand of a generated definition set, Onset/Offset/Inset/Duration/Delay/Event-context groups, nesting <= 4), "
        "validated with placeholders allowed and disallowed; plus one injected fault of each of 29 kinds with the "
        "expected HED code. A vocabulary sweep uses every plain/value/extensible node at least once. non-trivial = "
        "annotation with >= 2 tags or a mutant; distinct = distinct (schema, definitions, text, placeholder setting)")
ASSUMPTIONS = ["validity-by-construction encodes my reading of the HED rules through the code table in error_messages.py",
               "conservative pools: nodes carrying or inheriting placement/uniqueness/deprecation attributes are only "
               "used through their dedicated templates",
               "unit names containing a blank are not generated here (open C11 finding)"]
MIN_MONITOR_EVALS = {"valid-no-error": 1000, "mutant-has-code": 1000, "sweep-node": 500,
                     "cross-schema-history": 1000}
WATCHDOG_S = {"quick": 900, "thorough": 3600}


def shards(tier, seed):
    out = []
    sweep_versions = env.BUNDLED if tier == "thorough" else ["8.3.0"]
    for v in sweep_versions:
        for part in range(8):
            out.append(dict(kind="sweep", version=v, part=part, parts=8, spellings=6 if tier == "thorough" else 3))
    per = 3000 if tier == "thorough" else 300
    chunk = 150
    for v in env.BUNDLED:
        for i in range(0, per, chunk):
            out.append(dict(kind="random", version=v, n=chunk, stream=i, muts=(10 if tier == "thorough" else 7)))
    for a, b in CROSS_PAIRS:
        for part in range(2 if tier == "quick" else 8):
            out.append(dict(kind="cross", version=a, other=b, part=part, parts=8))
    return out


CROSS_PAIRS = [("8.0.0", "8.3.0"), ("8.1.0", "8.3.0"), ("8.2.0", "8.3.0"), ("score_1.0.0", "score_2.0.0"),
               ("testlib_2.0.0", "testlib_3.0.0"), ("8.2.0", "score_1.1.0")]


def _cross_expect(gen, name_cf, kind, value_node=None):
    """Expected verdict of 'Name/suffix' under the schema of gen, from that schema's XML alone; None = not judged."""
    n = gen.o.by_short.get(name_cf)
    if n is None:
        return "TAG_INVALID"
    if kind == "ext":
        if n in gen._ext_set:
            return "valid"
        if n in gen._noext_set:
            return "TAG_EXTENSION_INVALID"
        return None
    if n not in gen._value_set:
        return None
    if value_node is not None and value_node is not n:
        same = (sorted(gen.o.unit_classes_of(n)) == sorted(value_node[1]) and
                sorted(gen.o.value_classes_of(n)) == sorted(value_node[2]))
        return "valid" if same else None
    return "valid"


def run_cross(shard, rec):
    """History across schema objects in one process: the same tag text validated alternately under two loaded
    schemas must each time get the verdict that schema's own XML prescribes."""
    rng = rec.rng
    va, vb = shard["version"], shard["other"]
    rng.seed(f"c01-cross-{va}-{vb}-{shard['part']}-{rng.random()}")
    gens = {}
    for v in (va, vb):
        env.schema(v)                                   # both loaded before anything is validated
        g = annot.AnnotGen(schema_xml.load(v), rng)
        g._ext_set, g._noext_set, g._value_set = set(g.ext), set(g.noext), set(g.values)
        gens[v] = g
    names = sorted(set(gens[va].o.by_short) | set(gens[vb].o.by_short))
    for name_cf in names[shard["part"]::shard["parts"]]:
        texts = []
        owner = gens[va] if name_cf in gens[va].o.by_short else gens[vb]
        n = owner.o.by_short[name_cf]
        if n in owner._value_set:
            val = owner.value_for(n)
            texts.append(("value", n.name + "/" + val, (n, owner.o.unit_classes_of(n), owner.o.value_classes_of(n)), owner))
        elif not n.takes_value:
            texts.append(("ext", n.name + "/" + rng.choice(annot.EXT_WORDS), None, owner))
        for kind, text, vnode, own in texts:
            expect = {}
            for v, g in gens.items():
                if kind == "value":
                    expect[v] = "valid" if g is own else _cross_expect(g, name_cf, kind, vnode)
                else:
                    expect[v] = _cross_expect(g, name_cf, kind)
            differs = len({e for e in expect.values() if e}) > 1
            for v in (va, vb, va, vb):
                if expect[v] is None:
                    continue
                rec.mon("cross-schema-history")
                rec.count("cross-expect", f"{expect[v]}{' (other schema differs)' if differs else ''}")
                case = dict(schema=v, defs=[], text=text, allow_placeholders=False, expect=expect[v], kind="cross",
                            history=[va, vb, va, vb])
                rec.case((v, vb if v == va else va, text), nontrivial=differs)
                check_case(case, rec)


def classify(case, codes):
    """Mechanism key of a known defect, decided from the case alone."""
    if case["expect"] == "valid" and codes == {"DEF_EXPAND_INVALID"} and "def-expand/" in case["text"].casefold():
        return "def-expand-order-sensitive"
    if case.get("kind") == "repeated-group":
        return "dup-group-text-sort"
    return None


def check_case(case, rec):
    from hed.models.hed_string import HedString
    from hed.models.definition_dict import DefinitionDict
    from hed.errors.error_types import ErrorSeverity
    schema = env.schema(case["schema"])
    dd = None
    if case.get("defs"):
        dd = DefinitionDict(case["defs"], schema)
        if len(dd.defs) != len(case["defs"]) or dd.issues:
            rec.violation("generated definition set not accepted by DefinitionDict", case)
            return
    try:
        issues = HedString(case["text"], schema, def_dict=dd).validate(allow_placeholders=case["allow_placeholders"])
    except Exception as ex:  # noqa
        rec.violation(f"validate raised {type(ex).__name__}", case)
        return
    errs = {i["code"] for i in issues if i.get("severity", 1) == ErrorSeverity.ERROR}
    if case["expect"] == "valid":
        rec.mon("valid-no-error")
        if errs:
            rec.violation("rule-conforming annotation draws an error", dict(case, observed=sorted(errs)),
                          key=classify(case, errs))
    else:
        rec.mon("mutant-has-code")
        rec.count("mutation-kind", case["kind"])
        if case["expect"] not in errs:
            rec.violation(f"single-fault mutant ({case['kind']}) lacks {case['expect']}", dict(case, observed=sorted(errs)),
                          key=classify(case, errs))


def run_shard(shard, rec):
    rng = rec.rng
    v = shard["version"]
    o = schema_xml.load(v)
    if shard["kind"] == "cross":
        run_cross(shard, rec)
        return
    if shard["kind"] == "sweep":
        rng.seed(f"c01-sweep-{v}-{shard['part']}-{rng.random()}")
        gen = annot.AnnotGen(o, rng)
        pool = ([("plain", n) for n in gen.plain] + [("value", n) for n in gen.values] + [("ext", n) for n in gen.ext])
        for role, n in pool[shard["part"]::shard["parts"]]:
            rec.mon("sweep-node")
            rec.count("sweep-role", role)
            for k in range(shard["spellings"]):
                gen.used = set()
                name = gen.spell(n)
                if role == "plain":
                    t = annot.tag(name, "", n.path)
                elif role == "value":
                    t = annot.tag(name, "/" + gen.value_for(n), n.path, "value")
                else:
                    t = annot.tag(name, "/" + rng.choice(annot.EXT_WORDS), n.path, "ext")
                gen.used.add(n.path.casefold())
                shape = k % 3
                if shape == 0:
                    items = [t]
                elif shape == 1:
                    items = [annot.group([t, gen._plain_atom()])]
                else:
                    items = [gen._plain_atom(), annot.group([gen._plain_atom(), annot.group([t])])]
                text = annot.render(items, rng)
                case = dict(schema=v, defs=[], text=text, allow_placeholders=bool(k & 1), expect="valid", kind="sweep")
                rec.case((v, text, k & 1), nontrivial=shape != 0)
                check_case(case, rec)
        return
    rng.seed(f"c01-rand-{v}-{shard['stream']}-{rng.random()}")
    gen = annot.AnnotGen(o, rng)
    for i in range(shard["n"]):
        if i % 10 == 0:
            gen.make_defs()
            defs = gen.def_strings()
        try:
            items = gen.annotation(depth=4)
        except RuntimeError:
            rec.discard()
            continue
        text = annot.render(items, rng)
        ntags = sum(1 for t, _ in annot.walk(items) if t["t"] == "tag")
        for ap in (True, False):
            case = dict(schema=v, defs=defs, text=text, allow_placeholders=ap, expect="valid", kind="valid")
            rec.case((v, tuple(defs), text, ap), nontrivial=ntags >= 2)
            check_case(case, rec)
        for t, _ in annot.walk(items):
            rec.count("role", t["role"])
        if rng.random() < 0.01:
            rec.sample(dict(schema=v, defs=defs, text=text))
        # the legal degenerate definition without contents, declared beside the generated ones
        if defs and "Def" in gen.sp and i % 5 == 0:
            ddefs = defs + ["(Definition/Emptydef)"]
            extra = [("Def/Emptydef", "valid"), ("Def/Emptydef/" + rng.choice(["3", "abc"]), "DEF_INVALID"),
                     ("(Def/Emptydef/3, " + gen.spell(rng.choice(gen.plain)) + ")", "DEF_INVALID")]
            if "Def-expand" in gen.sp:
                extra += [("(Def-expand/Emptydef)", "valid"), ("(Def-expand/Emptydef/3)", "DEF_EXPAND_INVALID"),
                          ("(Def-expand/Emptydef, (" + gen.spell(rng.choice(gen.plain)) + "))", "DEF_EXPAND_INVALID")]
            for frag, expect in extra:
                dtext = frag if expect != "valid" or rng.random() < 0.5 else text + ", " + frag
                case = dict(schema=v, defs=ddefs, text=dtext, allow_placeholders=rng.random() < 0.5, expect=expect,
                            kind="empty-definition")
                rec.case((v, tuple(ddefs), dtext, expect))
                check_case(case, rec)
                rec.count("empty-definition", expect)
        # valid placeholder form when allowed
        if gen.values and rng.random() < 0.3:
            n = rng.choice(gen.values)
            ptext = text + ", " + gen.spell(n) + "/#"
            case = dict(schema=v, defs=defs, text=ptext, allow_placeholders=True, expect="valid", kind="valid-placeholder")
            rec.case((v, tuple(defs), ptext, True))
            check_case(case, rec)
        kinds = rng.sample(annot.MUTATION_KINDS, shard["muts"])
        for kind in kinds:
            saved = set(gen.used)
            try:
                m = annot.mutate(gen, items, kind, rng)
            except RuntimeError:
                m = None
            gen.used = saved
            if m is None:
                rec.count("mutation-not-applicable", kind)
                continue
            ap = rng.random() < 0.5 and kind != "stray-placeholder"
            case = dict(schema=v, defs=defs, text=m["text"], allow_placeholders=ap, expect=m["code"], kind=kind)
            rec.case((v, tuple(defs), m["text"], ap))
            check_case(case, rec)
            if m.get("sub"):
                rec.count("mutation-variant", f"{kind}:{m['sub']}")
            if rng.random() < 0.003:
                rec.sample(case)
    rec.count("schema", v, shard["n"])


def finalize(merged, tier, inconclusive):
    seen = merged.hist.get("mutation-kind", {})
    for k in annot.MUTATION_KINDS:
        if seen.get(k, 0) < 20:
            inconclusive.append(f"mutation kind '{k}' was exercised {seen.get(k, 0)} times (< 20)")
    var = merged.hist.get("mutation-variant", {})
    for k in ("bad-unit:wrong-case", "bad-unit:unit-first", "control-char:in-value"):
        if var.get(k, 0) < 20:
            inconclusive.append(f"mutation variant '{k}' was exercised {var.get(k, 0)} times (< 20)")


def replay(case, rec):
    if case.get("kind") == "cross":
        from hed.models.hed_string import HedString
        for v in case["history"]:
            env.schema(v)
        for v in case["history"]:                       # re-create the history; only the recorded schema is judged
            if v != case["schema"]:
                HedString(case["text"], env.schema(v)).validate(allow_placeholders=False)
            else:
                check_case(case, rec)
        return
    check_case(case, rec)
