"""C12 Every reported issue is well-formed and points at the offending text.

A universal issue checker applied to every issue list produced by the string / sidecar / table / dataset entry
points over the generators of C01, C06-C08 and C16, with warnings on and off, and with a context-carrying
ErrorHandler (the decorated path). A counting wrapper on ErrorHandler._update_error_with_char_pos records how often
each issue object is decorated.
"""
import copy
import io
import json
import os
import shutil

from hedmon.core import env
from hedmon.gen import annot, tables
from hedmon.oracle import schema_xml
from hedmon.props import c07, c16

ID = "C12"
LEVEL = "exploration"
RULE = ("issue lists of four entry points: (string) C01 annotations and all mutation kinds validated with an ErrorHandler "
        "holding the string context; (sidecar) C08-style valid and faulty sidecars; (table) C07 tables; (dataset) C16 trees; "
        "each with warnings on and off. Every issue is checked for fields, offsets, quoted fragment, single location "
        "suffix; each list for errors-only == error subset, stable sort order, JSON export. non-trivial = validation that "
        "returned >= 1 issue; distinct = distinct input")
ASSUMPTIONS = ["offset checks use the text of the issue's own ec_HedString context and the span hed reports for the tag",
               "the quoted fragment of a sub-tag issue is tag_text[index_in_tag:index_in_tag_end], as the decorator does"]
MIN_MONITOR_EVALS = {"issue-fields": 5000, "issue-offsets": 1000, "location-suffix-once": 1000,
                     "errors-only-is-subset": 800, "group-issue-fragment": 30, "sort-stable-ordered": 500, "json-export": 500}
SUFFIX = "Problem spans string indexes"
VERSIONS = ["8.3.0", "8.2.0"]
_decorations = {"n": 0, "installed": False}


def shards(tier, seed):
    n = {"quick": 1, "thorough": 40}[tier]
    out = []
    for k in range(n):
        for i in range(8):
            out.append(dict(kind="string", n=250, stream=(k, i), version=VERSIONS[i % 2]))
        for i in range(2):
            # the same under a schema loaded with a namespace prefix (every tag is written with the prefix)
            out.append(dict(kind="string", n=150, stream=(k, "ns", i), version=VERSIONS[i % 2], ns="ts:"))
        for i in range(4):
            out.append(dict(kind="sidecar", n=60, stream=(k, i), version=VERSIONS[i % 2]))
        for i in range(4):
            out.append(dict(kind="table", n=50, stream=(k, i), version=VERSIONS[i % 2]))
        for i in range(4):
            out.append(dict(kind="sheet", n=60, stream=(k, i), version=VERSIONS[i % 2]))
        for i in range(2):
            out.append(dict(kind="dataset", n=6, stream=(k, i)))
    return out


def install_counter():
    if _decorations["installed"]:
        return
    from hed.errors.error_reporter import ErrorHandler
    orig = ErrorHandler._update_error_with_char_pos

    def counting(error_object):
        _decorations["n"] += 1
        error_object["_hedmon_decorated"] = error_object.get("_hedmon_decorated", 0) + 1
        return orig(error_object)
    ErrorHandler._update_error_with_char_pos = staticmethod(counting)
    _decorations["installed"] = True


def check_issue(i, rec, case):
    """Well-formedness of one issue. Returns False when a violation was recorded."""
    from hed.models.hed_tag import HedTag
    from hed.models.hed_group import HedGroup
    rec.mon("issue-fields")
    if not isinstance(i, dict) or not isinstance(i.get("code"), str) or not i.get("code") \
            or not isinstance(i.get("message"), str) or not i.get("message") or i.get("severity") not in (1, 10):
        rec.violation("issue lacks code / message / severity", dict(case, issue=str(i)[:300]))
        return False
    msg = i["message"]
    n_suffix = msg.count(SUFFIX)
    rec.count("decorations-per-issue", str(i.get("_hedmon_decorated", 0)))
    hs = i.get("ec_HedString")
    if "char_index" in i:
        rec.mon("issue-offsets")
        ci = i["char_index"]
        if "char_index_end" in i:
            cie = i["char_index_end"]
            rec.mon("location-suffix-once")
            if n_suffix != 1:
                rec.violation("location suffix does not appear exactly once in the message of an issue with offsets",
                              dict(case, code=i["code"], message=msg), key="suffix-per-decoration" if n_suffix > 1 else None)
                return False
            if hs is None:
                rec.violation("issue has character offsets but no string context", dict(case, code=i["code"]))
                return False
            text = hs.get_original_hed_string()
            if not (isinstance(ci, int) and isinstance(cie, int) and 0 <= ci <= cie <= len(text)):
                rec.violation("character offsets lie outside the validated text", dict(case, code=i["code"], ci=ci, cie=cie))
                return False
            tag = i.get("source_tag")
            if isinstance(tag, (HedTag, HedGroup)):
                s, e = hs._get_org_span(tag)
                if s is not None and isinstance(tag, HedTag) and not tag._tag and text[s:e] != tag.org_tag:
                    rec.violation("the span reported for the named tag does not hold the tag's text",
                                  dict(case, code=i["code"], span=[s, e], tag=tag.org_tag))
                    return False
                if s is None or not (s <= ci <= cie <= e):
                    rec.violation("character offsets lie outside the span of the tag the issue names",
                                  dict(case, code=i["code"], ci=ci, cie=cie, span=[s, e]))
                    return False
                frag = text[ci:cie]
                if isinstance(tag, HedTag) and not tag._tag:
                    if "index_in_tag" in i:
                        end = i.get("index_in_tag_end")
                        want = tag.org_tag[i["index_in_tag"]:end]
                    else:
                        want = tag.org_tag
                    if frag != want:
                        rec.violation("offsets do not select the fragment the issue is about",
                                      dict(case, code=i["code"], selected=frag, expected=want))
                        return False
                    if "index_in_tag" in i and frag and frag not in msg:
                        rec.violation("the selected fragment is not the one quoted in the message",
                                      dict(case, code=i["code"], selected=frag, message=msg))
                        return False
                elif isinstance(tag, HedGroup):
                    # an issue about a whole group (an empty one): the group as written is selected and quoted
                    rec.mon("group-issue-fragment")
                    if frag != text[s:e]:
                        rec.violation("offsets do not select the group the issue names",
                                      dict(case, code=i["code"], selected=frag, expected=text[s:e]))
                        return False
                    if frag not in msg:
                        rec.violation("the selected group text is not the one quoted in the message",
                                      dict(case, code=i["code"], selected=frag, message=msg))
                        return False
        else:
            src = i.get("source_string")
            if not isinstance(src, str) or not (0 <= ci < max(1, len(src))):
                rec.violation("char_index outside the source string", dict(case, code=i["code"], ci=ci))
                return False
            if i["code"] in ("CHARACTER_INVALID", "TILDES_UNSUPPORTED") and src and src[ci] not in msg:
                rec.violation("the character at char_index is not the one quoted in the message", dict(case, code=i["code"]))
                return False
    elif n_suffix:
        rec.violation("message carries a location suffix but the issue has no offsets", dict(case, code=i["code"]))
        return False
    return True


def key_full(i):
    return (i["code"], i["severity"], i["message"], str(i.get("ec_filename")), i.get("ec_row"), str(i.get("ec_column")),
            str(i.get("ec_sidecarColumnName")), str(i.get("ec_sidecarKeyName")), i.get("char_index"), i.get("char_index_end"))


def check_lists(with_warn, errors_only, rec, case):
    for i in with_warn + errors_only:
        if not check_issue(i, rec, case):
            return
    rec.mon("errors-only-is-subset")
    a = sorted(map(repr, (key_full(i) for i in with_warn if i["severity"] == 1)))
    b = sorted(map(repr, (key_full(i) for i in errors_only)))
    if a != b:
        key = None
        if sorted(x.replace(SUFFIX, "") for x in a) != sorted(x.replace(SUFFIX, "") for x in b):
            key = None
        rec.violation("errors-only run is not exactly the error-severity subset of the run with warnings",
                      dict(case, n_with_warnings=len(a), n_errors_only=len(b)), key=key)
    # sorting
    from hed.errors.error_reporter import sort_issues, replace_tag_references
    import random
    rng = random.Random(len(with_warn))
    lst = list(with_warn)
    rng.shuffle(lst)
    rec.mon("sort-stable-ordered")
    try:
        out = sort_issues(lst)
    except Exception as ex:  # noqa
        rec.violation(f"sort_issues raised {type(ex).__name__}", case)
        out = None
    if out is not None:
        def skey(d):
            return (str(d.get("ec_title", "")), str(d.get("ec_filename", "")), str(d.get("ec_sidecarColumnName", "")),
                    str(d.get("ec_sidecarKeyName", "")), d.get("ec_row", -1))
        if sorted(map(id, out)) != sorted(map(id, lst)):
            rec.violation("sort_issues lost or duplicated issues", case)
        elif any(skey(out[k]) > skey(out[k + 1]) for k in range(len(out) - 1)):
            rec.violation("sort_issues result is not ordered by file, sidecar column and key, row", case)
        else:
            pos = {id(x): n for n, x in enumerate(lst)}
            full = lambda d: tuple((0, str(d.get(k, ""))) if not isinstance(d.get(k, ""), int) else (1, d.get(k)) for k in     # noqa
                                   ("ec_title", "ec_filename", "ec_sidecarColumnName", "ec_sidecarKeyName")) + \
                (d.get("ec_row", -1),) + tuple(str(d.get(k, "")) for k in ("ec_column", "ec_line", "ec_section", "ec_schema_tag", "ec_attribute"))
            for k in range(len(out) - 1):
                if full(out[k]) == full(out[k + 1]) and pos[id(out[k])] > pos[id(out[k + 1])]:
                    rec.violation("sort_issues is not stable", case)
                    break
    # export
    rec.mon("json-export")
    codes = [i["code"] for i in with_warn]
    cp = [dict(i) for i in with_warn]
    try:
        replace_tag_references(cp)
        text = json.dumps(cp)
        back = json.loads(text)
    except Exception as ex:  # noqa
        rec.violation(f"issue list not JSON-serialisable after replace_tag_references ({type(ex).__name__})", case)
        return
    if [i["code"] for i in back] != codes:
        rec.violation("codes change through replace_tag_references / JSON export", case)


def strip(issues):
    return issues


def run_string(shard, rec):
    from hed.models.hed_string import HedString
    from hed.models.definition_dict import DefinitionDict
    from hed.errors.error_reporter import ErrorHandler
    from hed.errors.error_types import ErrorContext
    rng = rec.rng
    v = shard["version"]
    ns = shard.get("ns", "")
    schema = env.schema(ns + v)
    gen = annot.AnnotGen(schema_xml.load(v), rng)
    defs = []
    for k in range(shard["n"]):
        if k % 10 == 0 and not ns:
            gen.make_defs()
            defs = gen.def_strings()
        try:
            items = gen.annotation(depth=3)
        except RuntimeError:
            rec.discard()
            continue
        texts = [annot.render(items, rng, ns)]
        for kind in rng.sample(annot.MUTATION_KINDS, 4):
            saved = set(gen.used)
            try:
                m = annot.mutate(gen, items, kind, rng)
            except RuntimeError:
                m = None
            gen.used = saved
            if m and not ns:
                texts.append(m["text"])
            elif m and m["items"] is not None:
                texts.append(annot.render(m["items"], rng, ns))
        if gen.ext and k % 2 == 0:
            # a character that no extension may hold, at a known place inside an extension
            import copy as _copy
            it2 = _copy.deepcopy(items)
            w = gen.spell(rng.choice(gen.ext)) + "/" + rng.choice(["Zzq$ext", "Zz=q", "Qq$", "Zz.dotted$x"])
            annot._insert_raw(it2, rng, {"t": "tag", "name": w, "suffix": "", "node": None, "role": "raw", "raw": w})
            texts.append(annot.render(it2, rng, ns))
            rec.count("string-kind", "bad-character-in-extension" + (" (prefixed)" if ns else ""))
        if k % 3 == 0:
            # faults located by a position inside a tag whose text gets longer when case-folded (sharp s, dotted I):
            # an unknown first term, and a schema term used as an extension after such a term
            import copy as _copy
            it3 = _copy.deepcopy(items)
            w = rng.choice(["\u0130\u0130\u0130", "Stra\u00dfe", "\u0130x/Red"])
            if gen.ext and rng.random() < 0.5:
                w = gen.spell(rng.choice(gen.ext)) + "/" + rng.choice(["Stra\u00dfe", "Ma\u00df/Wei\u00df"]) + "/" + rng.choice(gen.plain).name
            annot._insert_raw(it3, rng, {"t": "tag", "name": w, "suffix": "", "node": None, "role": "raw", "raw": w})
            texts.append(annot.render(it3, rng, ns))
            rec.count("string-kind", "position-in-fold-length-tag")
        dd = DefinitionDict(defs, schema) if defs else None
        for text in texts:
            ap = rng.random() < 0.5
            case = dict(entry="string", schema=ns + v, defs=defs, text=text, allow_placeholders=ap)
            lists = []
            try:
                for warn in (True, False):
                    hs = HedString(text, schema, dd)
                    eh = ErrorHandler(check_for_warnings=warn)
                    eh.push_error_context(ErrorContext.ROW, 7)
                    eh.push_error_context(ErrorContext.HED_STRING, hs)
                    lists.append(hs.validate(allow_placeholders=ap, error_handler=eh))
            except Exception as ex:  # noqa
                rec.violation(f"string validation with a context handler raised {type(ex).__name__}", case)
                continue
            rec.case((v, tuple(defs), text, ap), nontrivial=bool(lists[0]))
            check_lists(lists[0], lists[1], rec, case)
            # one object validated again and again (warnings on, off, on): each run's issues are well-formed by
            # themselves and the first run's issues are not changed by the later runs
            try:
                hs = HedString(text, schema, dd)
                runs = []
                for warn in (True, False, True):
                    eh = ErrorHandler(check_for_warnings=warn)
                    eh.push_error_context(ErrorContext.ROW, 7)
                    eh.push_error_context(ErrorContext.HED_STRING, hs)
                    runs.append(hs.validate(allow_placeholders=ap, error_handler=eh))
                    if len(runs) == 1:
                        first_msgs = [(i["code"], i["message"]) for i in runs[0]]
                rec.mon("same-object-revalidated")
                check_lists(runs[2], runs[1], rec, dict(case, revalidated=True))
                if [(i["code"], i["message"]) for i in runs[0]] != first_msgs:
                    rec.violation("validating an object again changed the issues returned by an earlier run",
                                  dict(case, revalidated=True))
                if [(i["code"], i["message"]) for i in runs[2]] != first_msgs:
                    rec.violation("validating the same object again returns different issues", dict(case, revalidated=True))
            except Exception as ex:  # noqa
                rec.violation(f"validating one object repeatedly raised {type(ex).__name__}", dict(case, revalidated=True))
            if rng.random() < 0.002:
                rec.sample(dict(case, codes=[i["code"] for i in lists[0]]))


def run_sidecar(shard, rec):
    from hed.models.sidecar import Sidecar
    from hed.errors.error_reporter import ErrorHandler
    from hedmon.props import c08
    rng = rec.rng
    v = shard["version"]
    schema = env.schema(v)
    gen = annot.AnnotGen(schema_xml.load(v), rng)
    for k in range(shard["n"]):
        gen.defs = []
        try:
            b = tables.gen_bundle(gen, rng)
        except RuntimeError:
            rec.discard()
            continue
        docs = [b["sidecar"]]
        for f in rng.sample(c08.FAULTS, 3):
            bad = c08.inject(b["sidecar"], b["kinds"], f, rng)
            if bad is not None:
                docs.append(bad)
        # a string fault inside an entry
        m = annot.mutate(gen, [gen._plain_atom()], rng.choice(["unknown-tag", "bad-value", "repeated-tag", "bracket-char"]), rng)
        if m:
            d2 = copy.deepcopy(b["sidecar"])
            d2["faulty_col"] = {"HED": {"x": m["text"], "y": "Red"}}
            docs.append(d2)
        # definitions declared in the sidecar, some of them breaking a definition rule (their issues are produced when
        # the definitions are gathered and travel through the sidecar validator afterwards)
        if "Definition" in gen.sp and "Def" in gen.sp:
            bad_defs = ["(Definition/Bad1, (Def/Gooddef, Blue))", "(Definition/Bad/Name2, (Red))",
                        "(Definition/Bad3, (Definition/Inner, (Red)))", "(Definition/Bad4/#, (Red))",
                        "(Definition/Bad5, (Def-expand/Gooddef, (Red)))", "(Definition/Bad6, (Red), (Blue))",
                        "(Definition/Bad7/#, (Label/#, Item-count/#))", "(Definition/Gooddef, (Green))"]
            d3 = copy.deepcopy(b["sidecar"])
            d3["defs_col"] = {"HED": dict([("good", "(Definition/Gooddef, (Red))")] +
                                         [(f"k{j}", t) for j, t in enumerate(rng.sample(bad_defs, rng.randrange(0, 4)))])}
            docs.append(d3)
        for doc in docs:
            case = dict(entry="sidecar", schema=v, doc=doc)
            lists = []
            try:
                for warn in (True, False):
                    sc = Sidecar(io.StringIO(json.dumps(doc)), name="side.json")
                    lists.append(sc.validate(schema, name="side.json", error_handler=ErrorHandler(check_for_warnings=warn)))
            except Exception as ex:  # noqa
                rec.violation(f"sidecar validation raised {type(ex).__name__}", case)
                continue
            rec.case(json.dumps(doc, sort_keys=True), nontrivial=bool(lists[0]))
            check_lists(lists[0], lists[1], rec, case)


def run_table(shard, rec):
    from hed.models.definition_dict import DefinitionDict
    from hed.errors.error_reporter import ErrorHandler
    rng = rec.rng
    v = shard["version"]
    schema = env.schema(v)
    gen = annot.AnnotGen(schema_xml.load(v), rng)
    for k in range(shard["n"]):
        try:
            case = c07.make_case(gen, rng)
        except RuntimeError:
            rec.discard()
            continue
        case["version"] = v
        case["entry"] = "table"
        dd = DefinitionDict(case["defs"], schema)
        lists = []
        try:
            for warn in (True, False):
                lists.append(c07.build_input(case).validate(schema, extra_def_dicts=dd, name="events.tsv",
                                                            error_handler=ErrorHandler(check_for_warnings=warn)))
        except Exception as ex:  # noqa
            rec.violation(f"table validation raised {type(ex).__name__}", case)
            continue
        rec.case(json.dumps(case, sort_keys=True), nontrivial=bool(lists[0]))
        check_lists(lists[0], lists[1], rec, case)


def run_sheet(shard, rec):
    """Spreadsheets with 2-5 tag columns (with and without header): row-level issues that name tags of later columns."""
    from hed.models.spreadsheet_input import SpreadsheetInput
    from hed.errors.error_reporter import ErrorHandler
    rng = rec.rng
    v = shard["version"]
    schema = env.schema(v)
    gen = annot.AnnotGen(schema_xml.load(v), rng)
    for k in range(shard["n"]):
        gen.used = set()
        ncols = rng.randrange(2, 6)
        header = rng.random() < 0.5
        rows = []
        try:
            for _ in range(rng.randrange(1, 5)):
                cells = [annot.render(gen.annotation(depth=2, temporal=False, size=rng.randrange(1, 3), reset=False), rng)
                         for _ in range(ncols)]
                q = rng.random()
                j = rng.randrange(1, ncols)                       # the fault sits in a later column
                if q < 0.4:
                    src = gen._plain_atom()
                    t = annot.render([src], None)
                    cells[rng.randrange(0, j)] += ", " + t
                    cells[j] += ", " + t                          # repeated across columns (row-level issue)
                elif q < 0.6:
                    cells[j] += ", Def-expand/Nodef"              # tag-group tag outside a group
                elif q < 0.75:
                    cells[j] = "n/a"
                elif q < 0.85:
                    cells[j] += ", (Onset)" if "Onset" in gen.top else ", ()"
                rows.append(cells)
        except RuntimeError:
            rec.discard()
            continue
        text = ("\t".join(f"col{c}" for c in range(ncols)) + "\n" if header else "") + \
            "\n".join("\t".join(r) for r in rows) + "\n"
        case = dict(entry="sheet", version=v, header=header, ncols=ncols, text=text)
        lists = []
        try:
            for warn in (True, False):
                cols = [f"col{c}" for c in range(ncols)] if header else list(range(ncols))
                obj = SpreadsheetInput(io.StringIO(text), file_type=".tsv", has_column_names=header, tag_columns=cols)
                lists.append(obj.validate(schema, name="sheet.tsv", error_handler=ErrorHandler(check_for_warnings=warn)))
        except Exception as ex:  # noqa
            rec.violation(f"spreadsheet validation raised {type(ex).__name__}", case)
            continue
        rec.case(text, nontrivial=bool(lists[0]))
        check_lists(lists[0], lists[1], rec, case)


def run_dataset(shard, rec):
    from hed.tools.bids.bids_dataset import BidsDataset
    rng = rec.rng
    schema = env.schema("8.3.0")
    gen = annot.AnnotGen(schema_xml.load("8.3.0"), rng)
    for k in range(shard["n"]):
        root = os.path.join(env.scratch(), f"c12ds-{os.getpid()}")
        shutil.rmtree(root, ignore_errors=True)
        os.makedirs(root)
        try:
            files = c16.build_tree(root, rng, gen)
            case = dict(entry="dataset", files=files)
            ds = BidsDataset(root, schema=schema)
            lists = [ds.validate(check_for_warnings=True), ds.validate(check_for_warnings=False)]
        except RuntimeError:
            rec.discard()
            continue
        except Exception as ex:  # noqa
            rec.violation(f"dataset validation raised {type(ex).__name__}", dict(entry="dataset"))
            continue
        finally:
            shutil.rmtree(root, ignore_errors=True)
        rec.case(json.dumps(files, sort_keys=True), nontrivial=bool(lists[0]))
        check_lists(lists[0], lists[1], rec, case)


def run_shard(shard, rec):
    install_counter()
    rec.rng.seed(f"c12-{shard['kind']}-{shard['stream']}-{rec.rng.random()}")
    {"string": run_string, "sidecar": run_sidecar, "table": run_table, "dataset": run_dataset,
     "sheet": run_sheet}[shard["kind"]](shard, rec)
    rec.count("entry-point", shard["kind"], shard["n"])
    rec.count("decorations-total", "n", _decorations["n"])


def replay(case, rec):
    """Replays re-run the entry point of the recorded case."""
    install_counter()
    from hed.errors.error_reporter import ErrorHandler
    e = case.get("entry")
    lists = []
    if e == "string":
        from hed.models.hed_string import HedString
        from hed.models.definition_dict import DefinitionDict
        from hed.errors.error_types import ErrorContext
        schema = env.schema(case["schema"])
        dd = DefinitionDict(case["defs"], schema) if case["defs"] else None
        for warn in (True, False):
            hs = HedString(case["text"], schema, dd)
            eh = ErrorHandler(check_for_warnings=warn)
            eh.push_error_context(ErrorContext.ROW, 7)
            eh.push_error_context(ErrorContext.HED_STRING, hs)
            lists.append(hs.validate(allow_placeholders=case["allow_placeholders"], error_handler=eh))
    elif e == "sidecar":
        from hed.models.sidecar import Sidecar
        for warn in (True, False):
            sc = Sidecar(io.StringIO(json.dumps(case["doc"])), name="side.json")
            lists.append(sc.validate(env.schema(case["schema"]), name="side.json", error_handler=ErrorHandler(warn)))
    elif e == "table":
        from hed.models.definition_dict import DefinitionDict
        schema = env.schema(case["version"])
        dd = DefinitionDict(case["defs"], schema)
        for warn in (True, False):
            lists.append(c07.build_input(case).validate(schema, extra_def_dicts=dd, name="events.tsv",
                                                        error_handler=ErrorHandler(warn)))
    elif e == "sheet":
        from hed.models.spreadsheet_input import SpreadsheetInput
        cols = [f"col{c}" for c in range(case["ncols"])] if case["header"] else list(range(case["ncols"]))
        for warn in (True, False):
            obj = SpreadsheetInput(io.StringIO(case["text"]), file_type=".tsv", has_column_names=case["header"], tag_columns=cols)
            lists.append(obj.validate(env.schema(case["version"]), name="sheet.tsv", error_handler=ErrorHandler(warn)))
    elif e == "dataset":
        from hed.tools.bids.bids_dataset import BidsDataset
        root = os.path.join(env.scratch(), f"c12ds-{os.getpid()}")
        os.makedirs(root, exist_ok=True)
        c16.write_tree(root, case["files"])
        ds = BidsDataset(root, schema=env.schema("8.3.0"))
        lists = [ds.validate(check_for_warnings=True), ds.validate(check_for_warnings=False)]
        shutil.rmtree(root, ignore_errors=True)
    if lists:
        check_lists(lists[0], lists[1], rec, case)
