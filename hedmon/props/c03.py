"""C03 Every spelling of a schema tag resolves to the same node and canonical forms.

Oracle: independent XML reader (long path, short name, '#' child). Monitors on the real HedTag/HedSchema.
"""
import random
import xml.etree.ElementTree as ET

from hedmon.core import env
from hedmon.oracle import schema_xml

ID = "C03"
LEVEL = "exploration"
RULE = ("every node of every bundled schema (and of generated schemas made by editing the XML text) x every suffix-path "
        "spelling x case variants x {no prefix, 'xx:' prefix} x {bare, value/extension suffix}; the XML oracle gives the "
        "expected long path, short name and whether a '#' child exists; non-trivial = spelling differs from the "
        "canonical long form or carries a suffix; distinct = distinct (schema, prefix, text)")
ASSUMPTIONS = ["oracle hedmon/oracle/schema_xml.py reads the bundled XML with xml.etree only",
               "extension words (Zzqext, Qqmore) are not schema terms in any bundled schema"]
MIN_MONITOR_EVALS = {"same-node": 5000, "forms": 5000, "suffix-verbatim": 2000, "inverse-idempotent": 5000,
                     "bulk-convert": 1000, "generated-schema-node": 500, "entry-of-this-schema": 5000,
                     "interleaved-versions": 500, "placeholder-child-lookup": 500, "respelled-object": 1000, "rebased-object": 1000, "re-identified-by-validator": 300}
WATCHDOG_S = {"quick": 900, "thorough": 3600}
# (the last ones: several levels, with letters whose case-folded form is longer than the letter)
VALUES = ["/3", "/3 s", "/Abc-1", "/XyZ 1", "/#", "/7.5 mV", "/Stra\u00dfe/Nummer5", "/\ufb01ne/x 1/y"]
EXTS = ["/Zzqext", "/Zzqext/Qqmore", "/ZZqExt", "/Ma\u00df/Qqmore", "/Zzqext/Wei\u00df/Qqmore"]


def shards(tier, seed):
    out = []
    for v in env.BUNDLED:
        # 'sc:' shares its letters with the first letters of many tag names (Sensory-event, Cough, ...)
        prefixes = ["", "xx:", "sc:"] if (tier == "thorough" or v in ("8.3.0", "score_2.0.0")) else [""]
        for ns in prefixes:
            for part in range(4):
                out.append(dict(kind="bundled", version=v, ns=ns, part=part, parts=4,
                                cases=4 if tier == "thorough" else 2))
    for a, b in [("8.2.0", "8.3.0"), ("8.0.0", "8.3.0"), ("score_1.1.0", "score_2.0.0"), ("testlib_2.0.0", "testlib_3.0.0")]:
        for part in range(4 if tier == "thorough" else 1):
            out.append(dict(kind="interleaved", version=a, other=b, part=part, parts=4 if tier == "thorough" else 8))
    n_gen = 300 if tier == "thorough" else 6
    for i in range(n_gen):
        out.append(dict(kind="generated", base=["8.3.0", "8.2.0", "score_2.0.0", "testlib_3.0.0"][i % 4], index=i))
    return out


def _case_variants(rng, s, n):
    out = [s]
    if n >= 2:
        out.append(rng.choice([s.lower(), s.upper()]))
    if n >= 4:
        out.append(s.upper() if out[1] == s.lower() else s.lower())
        out.append("".join(c.upper() if rng.random() < 0.5 else c.lower() for c in s))
    return out


def check_node(schema, ns, node, rng, ncases, rec, label, entries, bulk):
    from hed.models.hed_tag import HedTag
    from hed.models.hed_string import HedString
    suffixes = [""]
    if node.takes_value:
        suffixes += rng.sample(VALUES, 2)
    else:
        suffixes += rng.sample(EXTS, 1 if ncases < 4 else 2)
    # the same suffix again in another letter case: a value/extension must come back exactly as written each time
    suffixes += [x.swapcase() for x in suffixes[1:2] if x.swapcase() != x]
    for spelled0 in node.suffix_paths():
        for spelled in _case_variants(rng, spelled0, ncases):
            for suffix in suffixes:
                text = ns + spelled + suffix
                case = dict(schema=label, ns=ns, text=text, node=node.path)
                nontriv = bool(suffix) or spelled != node.path
                rec.case((label, ns, text), nontriv)
                try:
                    t = HedTag(text, schema)
                except Exception as ex:      # noqa
                    rec.violation(f"HedTag constructor raised {type(ex).__name__}", case)
                    continue
                e = t._schema_entry
                rec.mon("same-node")
                if e is None:
                    rec.violation("spelling of a schema node not identified", case)
                    continue
                ekey = (node.path, bool(suffix) and node.takes_value)
                first = entries.setdefault(ekey, e)
                if first is not e:
                    rec.violation("two spellings of one node resolve to different schema entries", case)
                rec.mon("entry-of-this-schema")
                if schema.tags.get(e.name) is not e:
                    rec.violation("resolved entry is not an entry of the schema the tag was resolved with", case)
                if e.long_tag_name != node.path or e.short_tag_name != node.name:
                    rec.violation("resolved entry is not the node the XML oracle names", case)
                    continue
                if bool(suffix) and node.takes_value and not e.name.endswith("/#"):
                    rec.violation("value suffix did not switch to the '#' child entry", case)
                rec.mon("forms")
                if (t.long_tag != ns + node.path + suffix or t.short_tag != ns + node.name + suffix
                        or t.base_tag != node.path or t.short_base_tag != node.name
                        or t.org_base_tag != ns + spelled or not t.tag_exists_in_schema()):
                    rec.violation("long/short/base forms differ from oracle path + namespace + suffix", case)
                if suffix:
                    rec.mon("suffix-verbatim")
                    if t.extension != suffix[1:]:
                        rec.violation("value/extension suffix not carried over verbatim", case)
                # inverse / idempotent
                rec.mon("inverse-idempotent")
                try:
                    tl = HedTag(t.long_tag, schema)
                    ts = HedTag(t.short_tag, schema)
                    ok = (tl.short_tag == t.short_tag and ts.long_tag == t.long_tag and tl.long_tag == t.long_tag
                          and ts.short_tag == t.short_tag and tl._schema_entry is e and ts._schema_entry is e)
                except Exception as ex:      # noqa
                    rec.violation(f"re-resolving a canonical form raised {type(ex).__name__}", case)
                    ok = True
                if not ok:
                    rec.violation("long(short(t)) / short(long(t)) / idempotence broken", case)
                if not suffix:
                    if node.takes_value:
                        # the '#' child under every spelling of its parent
                        gh = schema.get_tag_entry(spelled + "/#", schema_namespace=ns)
                        rec.mon("placeholder-child-lookup")
                        if gh is None or gh.name != node.path + "/#" or gh is not schema.tags.get(node.path + "/#"):
                            rec.violation("schema.get_tag_entry does not find the '#' child under a spelling of its parent", case)
                    got = schema.get_tag_entry(spelled, schema_namespace=ns)
                    got_p = schema.get_tag_entry(ns + spelled, schema_namespace=ns)     # the prefix may be written
                    if got is not e or got_p is not e:
                        rec.violation("schema.get_tag_entry disagrees with HedTag resolution", case)
                if rng.random() < 0.15:
                    hs = HedString(text, schema)
                    if hs.get_as_long() != t.long_tag or hs.get_as_short() != t.short_tag:
                        rec.violation("HedString.get_as_long/short disagree with the tag properties", case)
                    bulk.append((text, t.long_tag, t.short_tag))
                if node.parent is not None and not suffix and rng.random() < 0.06:
                    # the same tag object re-spelled through its public setter now names another node
                    rec.mon("respelled-object")
                    try:
                        t.tag = ns + node.parent.name
                        if (t.long_tag != ns + node.parent.path or t.short_tag != ns + node.parent.name
                                or t.base_tag != node.parent.path or not t.tag_exists_in_schema()):
                            rec.violation("a tag object re-spelled through its setter still names its former node", case)
                    except Exception as ex:      # noqa
                        rec.violation(f"re-spelling a tag object raised {type(ex).__name__}", case)
                if node.parent is not None and not suffix and rng.random() < 0.06:
                    # the same, through the setter that swaps the node and keeps prefix and suffix (Def <-> Def-expand)
                    rec.mon("rebased-object")
                    try:
                        t2 = HedTag(text, schema)
                        t2.short_base_tag = node.parent.name
                        if (t2.long_tag != ns + node.parent.path or t2.short_tag != ns + node.parent.name
                                or t2.base_tag != node.parent.path or not t2.tag_exists_in_schema()):
                            rec.violation("a tag object re-based through its setter is not identified as the new node", case)
                    except Exception as ex:      # noqa
                        rec.violation(f"re-basing a tag object raised {type(ex).__name__}", case)
                if rng.random() < 0.0005:
                    rec.sample(case)


def check_bulk(schema, bulk, rec, label):
    import pandas as pd
    from hed.models import df_util
    if not bulk:
        return
    for form, idx in (("long_tag", 1), ("short_tag", 2)):
        s = pd.Series([b[0] for b in bulk])
        df = pd.DataFrame({"a": [b[0] for b in bulk], "b": [f"({b[0]}, {b[0]})" for b in bulk]})
        if form == "short_tag":
            # a column / frame whose index is not 0..n-1 (what is left after filtering or re-ordering)
            lab = [3 * i + 7 for i in range(len(bulk))]
            lab = lab[len(lab) // 2:] + lab[:len(lab) // 2]
            s.index = lab
            df.index = lab
        try:
            df_util.convert_to_form(s, schema, form)
            df_util.convert_to_form(df, schema, form)
        except Exception as ex:  # noqa
            rec.violation(f"df_util.convert_to_form raised {type(ex).__name__}", dict(schema=label, form=form,
                                                                                     texts=[b[0] for b in bulk[:5]]))
            continue
        for i, b in enumerate(bulk):
            rec.mon("bulk-convert")
            if s.iloc[i] != b[idx] or df["a"].iloc[i] != b[idx] or df["b"].iloc[i] != f"({b[idx]},{b[idx]})":
                rec.violation("df_util.convert_to_form disagrees with per-tag form", dict(schema=label, form=form, text=b[0]))
                break


NEW_NAMES = ["Newnode", "Sensory", "Event-x", "Zed", "Agent-actionable", "Item-2", "Obj", "Red-ish", "A1", "Property-b"]


def generate_schema_text(base, index):
    """Edit the XML text of a bundled schema: add nodes at depth 1-6 (names that are prefixes/suffixes of existing
    names included), some with '#' children."""
    rng = random.Random(f"c03-gen-{base}-{index}")
    text = open(env.xml_path(base), encoding="utf-8").read()
    root = ET.fromstring(text)
    schema_el = root.find("schema")
    all_nodes = [n for n in schema_el.iter("node") if n.findtext("name") != "#"]
    existing = {n.findtext("name").casefold() for n in all_nodes}
    lib = root.get("library")
    added = []
    for k in range(rng.randrange(2, 9)):
        name = rng.choice(NEW_NAMES) + rng.choice(["", "-q", "x", str(index)])
        if name.casefold() in existing:
            continue
        existing.add(name.casefold())
        parent = rng.choice(all_nodes) if rng.random() < 0.85 else schema_el
        # do not hang nodes under a node that has a '#' child's sibling position problem: allowed, '#' stays a child
        el = ET.Element("node")
        ET.SubElement(el, "name").text = name
        ET.SubElement(el, "description").text = "Generated node " + name
        if lib:
            a = ET.SubElement(el, "attribute")
            ET.SubElement(a, "name").text = "inLibrary"
            ET.SubElement(a, "value").text = lib
        if rng.random() < 0.4:
            h = ET.SubElement(el, "node")
            ET.SubElement(h, "name").text = "#"
            a = ET.SubElement(h, "attribute")
            ET.SubElement(a, "name").text = "takesValue"
            if lib:
                a = ET.SubElement(h, "attribute")
                ET.SubElement(a, "name").text = "inLibrary"
                ET.SubElement(a, "value").text = lib
        # insert after name/description/attributes of the parent: append is fine for both readers
        parent.append(el)
        all_nodes.append(el)
        added.append(name)
    return ET.tostring(root, encoding="unicode"), added


def run_shard(shard, rec):
    rng = rec.rng
    if shard["kind"] == "bundled":
        v, ns = shard["version"], shard["ns"]
        rng.seed(f"c03-{v}-{ns}-{shard['part']}-{rng.random()}")
        oracle = schema_xml.load(v)
        schema = env.schema(ns + v)
        nodes = oracle.nodes[shard["part"]::shard["parts"]]
        entries, bulk = {}, []
        for node in nodes:
            check_node(schema, ns, node, rng, shard["cases"], rec, ns + v, entries, bulk)
        check_bulk(schema, bulk[:400], rec, ns + v)
        rec.count("schema", ns + v, len(nodes))
    elif shard["kind"] == "interleaved":
        # history across schema objects: the same spellings resolved alternately under two loaded versions
        va, vb = shard["version"], shard["other"]
        rng.seed(f"c03-il-{va}-{vb}-{shard['part']}-{rng.random()}")
        pair = [(v, schema_xml.load(v), env.schema(v), {}) for v in (va, vb)]
        names = sorted(set(pair[0][1].by_short) & set(pair[1][1].by_short))[shard["part"]::shard["parts"]]
        for nm in names:
            state = rng.getstate()
            for v, oracle, schema, entries in pair + pair:
                rng.setstate(state)                      # identical spellings and suffixes under both versions
                rec.mon("interleaved-versions")
                check_node(schema, "", oracle.by_short[nm], rng, 2, rec, v, entries, [])
        # an annotation built under one version and then validated by a validator of the other: the validator's
        # schema has the last word on which node each tag is
        from hed.models.hed_string import HedString
        from hed.validator.hed_validator import HedValidator
        for (v1, o1, s1, _e1), (v2, o2, s2, _e2) in ((pair[0], pair[1]), (pair[1], pair[0])):
            validator = HedValidator(s2)
            only1 = sorted(set(o1.by_short) - set(o2.by_short))[:40]
            for nm in names + only1:
                node1 = o1.by_short[nm]
                node2 = o2.by_short.get(nm)
                text = node1.name
                case = dict(schema=f"{v1}->{v2}", ns="", text=text, node=node1.path)
                rec.mon("re-identified-by-validator")
                rec.case((f"{v1}->{v2}", "", text), True)
                try:
                    hs = HedString(text, s1)
                    validator.validate(hs, False)
                    t = hs.get_all_tags()[0]
                    if node2 is None:
                        ok = not t.tag_exists_in_schema()
                    else:
                        ok = (t.long_tag == node2.path and t.short_tag == node2.name and t.base_tag == node2.path
                              and t.tag_exists_in_schema() and t._schema_entry is s2.tags.get(t._schema_entry.name))
                except Exception as ex:  # noqa
                    rec.violation(f"validating an annotation built under another version raised {type(ex).__name__}", case)
                    continue
                if not ok:
                    rec.violation("after validation under another schema a tag still names the node of the schema it was built with",
                                  case)
        rec.count("schema", f"{va}<->{vb}", len(names))
    else:
        from hed.schema import from_string
        text, added = generate_schema_text(shard["base"], shard["index"])
        label = f"gen({shard['base']},{shard['index']})"
        try:
            schema = from_string(text, schema_format=".xml")
        except Exception as ex:  # noqa
            rec.violation(f"generated schema failed to load: {type(ex).__name__}", dict(gen=shard, added=added))
            return
        oracle = schema_xml.SchemaOracle(text)
        rng.seed(f"c03-g-{shard['index']}")
        entries, bulk = {}, []
        # all added nodes + their ancestors/descendants + a sample of the others
        addset = {a.casefold() for a in added}
        focus = [n for n in oracle.nodes if any(x.name.casefold() in addset for x in n.ancestors())]
        others = rng.sample(oracle.nodes, 150)
        for node in focus + others:
            rec.mon("generated-schema-node")
            check_node(schema, "", node, rng, 2, rec, label, entries, bulk)
        # column conversion follows the schema that is passed in, also when another schema object of the same
        # version (the bundled one) converted the same texts earlier in this process
        import pandas as pd
        from hed.models import df_util
        btexts = [ns_t for ns_t in (n.name for n in focus)] + [b[0] for b in bulk[:50]]
        try:
            df_util.convert_to_form(pd.Series(list(btexts)), env.schema(shard["base"]), "long_tag")
            df_util.convert_to_form(pd.Series(list(btexts)), env.schema(shard["base"]), "short_tag")
        except Exception:  # noqa   (tags unknown to the base schema may raise there; only the history matters)
            pass
        from hed.models.hed_tag import HedTag
        want = [(tx, HedTag(tx, schema).long_tag, HedTag(tx, schema).short_tag) for tx in btexts]
        check_bulk(schema, want, rec, label)
        rec.count("schema", "generated", 1)
        rec.count("generated-added-nodes", "n", len(added))


def replay(case, rec):
    from hed.models.hed_tag import HedTag
    label = case["schema"]
    if label.startswith("gen("):
        base, idx = label[4:-1].split(",")
        from hed.schema import from_string
        text, _ = generate_schema_text(base, int(idx))
        schema = from_string(text, schema_format=".xml")
        oracle = schema_xml.SchemaOracle(text)
    else:
        schema = env.schema(label)
        oracle = schema_xml.load(label.split(":")[-1])
    node = oracle.by_path[case["node"].casefold()]
    check_node(schema, case["ns"], node, random.Random(0), 4, rec, label, {}, [])
