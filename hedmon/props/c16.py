"""C16 Each dataset file is validated with its inherited, merged sidecar.

Oracle: independent inheritance resolver (oracle/bids.py). Dataset-level expectation: union of validating each
merged sidecar and each events file with its merged sidecar, computed by calling the sidecar / tabular entry
points directly on the expected chains. CLI run in-process.
"""
import contextlib
import io
import json
import os
import shutil
import sys

from hedmon.core import env
from hedmon.gen import annot
from hedmon.oracle import bids as bids_oracle, schema_xml

ID = "C16"
LEVEL = "exploration"
EXCLUDE = ["sourcedata", "derivatives", "code", "stimuli", "phenotype"]
RULE = ("generated BIDS-style trees: 1-3 subjects, optional sessions, 1-2 tasks, 1-2 runs; same-suffix sidecars at any "
        "subset of {root, sub, ses, data directory} with entity subsets (none, task, sub, sub+task, full), at most one "
        "applicable per directory; decoy events/sidecar files in derivatives, code, stimuli, sourcedata, phenotype; "
        "sidecar columns (2 categorical, 1 value) overridden per level; some entries / cells carry one C01 fault. "
        "non-trivial = tree in which some events file has >= 2 applicable sidecars; distinct = distinct tree content")
ASSUMPTIONS = ["inheritance resolver hedmon/oracle/bids.py written from the property text",
               "expected dataset issues are computed with hed's own Sidecar.validate / TabularInput.validate on the "
               "resolver's chains (C06-C08 decide those entry points)", "schema 8.3.0 from dataset_description.json"]
MIN_MONITOR_EVALS = {"merged-sidecar-equals-model": 200, "excluded-dirs-ignored": 60, "dataset-issues-equal-union": 60, "several-file-kinds-equal-union": 40,
                     "cli-exit-status": 60}
WATCHDOG_S = {"quick": 900, "thorough": 5400}
KEYS = {"trial_type": ["go", "stop"], "response": ["left", "right"]}


def shards(tier, seed):
    n = {"quick": 120, "thorough": 4000}[tier]
    return [dict(n=10, stream=i) for i in range(0, n, 10)]


def _entry(gen, rng, col, fault_p):
    """A sidecar column entry; with probability fault_p one HED string carries a fault."""
    def good():
        return annot.render(gen.annotation(depth=2, temporal=False, size=rng.randrange(1, 3), reset=False), rng)

    def maybe_bad():
        if rng.random() < fault_p:
            items = gen.annotation(depth=2, temporal=False, size=1, reset=False)
            m = annot.mutate(gen, items, rng.choice(["unknown-tag", "extension-forbidden", "bad-value", "repeated-tag"]), rng)
            if m:
                return m["text"]
        return good()
    if col in KEYS:
        return {"Description": col, "HED": {k: maybe_bad() for k in KEYS[col]}}
    node = rng.choice(gen.values)
    return {"Description": col, "HED": f"{node.name}/#" + (", " + good() if rng.random() < 0.5 else "")}, node.path


def build_tree(root, rng, gen):
    """Write a dataset under root. Returns description dict (JSON-able)."""
    gen.used = set()
    nsub = rng.randrange(1, 4)
    sessions = rng.choice([[], [], ["1"], ["1", "2"]])
    tasks = rng.choice([["A"], ["A", "B"]])
    runs = rng.choice([[None], ["1", "2"]])
    fault_p = rng.choice([0.0, 0.0, 0.15])
    value_node = [None]
    files = {}

    def sidecar_content():
        if rng.random() < 0.12:
            # no annotation anywhere, but a reserved key in a place where it draws an issue
            return {rng.choice(["response", "notes"]): {"Description": "x", "Levels": {"HED": {"a": "Red"}}}}
        cols = rng.sample(["trial_type", "response", "rt"], rng.randrange(1, 4))
        out = {}
        for c in cols:
            if c == "rt":
                if value_node[0] is None:
                    e, value_node[0] = _entry(gen, rng, c, fault_p)
                else:
                    e = {"Description": "rt", "HED": f"{gen.o.by_path[value_node[0].casefold()].name}/#"}
                out[c] = e
            else:
                out[c] = _entry(gen, rng, c, fault_p)
            if rng.random() < 0.2:
                # the column described without annotation: at a deeper level this replaces a shallower annotated entry
                out[c] = {"Description": f"{c}, not annotated here", "Levels": {k: f"level {k}" for k in KEYS.get(c, ["x"])}}
        if rng.random() < 0.3:
            out["TaskName" if rng.random() < 0.5 else "notes"] = {"Description": "no HED here"}
        return out

    def put(rel, obj):
        p = os.path.join(root, rel)
        os.makedirs(os.path.dirname(p), exist_ok=True)
        with open(p, "w") as f:
            if isinstance(obj, str):
                f.write(obj)
            else:
                json.dump(obj, f)
        files[rel] = obj
    put("dataset_description.json", {"Name": "gen", "BIDSVersion": "1.8.0", "HEDVersion": "8.3.0"})

    def place_sidecars(reldir, fixed, optional):
        """fixed: entity pairs every name here must carry; optional: entity -> values that may be added."""
        mode = rng.choice(["none", "none", "plain", "per-task", "plain"])
        pre = "_".join(f"{k}-{v}" for k, v in fixed)
        if mode == "plain":
            put(os.path.join(reldir, (pre + "_" if pre else "") + "events.json"), sidecar_content())
        elif mode == "per-task":
            for t in tasks:
                if rng.random() < 0.8:
                    put(os.path.join(reldir, (pre + "_" if pre else "") + f"task-{t}_events.json"), sidecar_content())
    place_sidecars("", [], None)
    for s in range(1, nsub + 1):
        sub = f"{s:02d}"
        place_sidecars(f"sub-{sub}", [("sub", sub)], None)
        for ses in (sessions or [None]):
            base = f"sub-{sub}" + (f"/ses-{ses}" if ses else "")
            fixed = [("sub", sub)] + ([("ses", ses)] if ses else [])
            if ses:
                place_sidecars(base, fixed, None)
            for t in tasks:
                for r in runs:
                    ents = fixed + [("task", t)] + ([("run", r)] if r else [])
                    stem = "_".join(f"{k}-{v}" for k, v in ents)
                    rows = ["onset\tduration\ttrial_type\tresponse\trt\tHED"]
                    for i in range(rng.randrange(1, 5)):
                        rt = "n/a"
                        if value_node[0] is not None and rng.random() < 0.7:
                            rt = gen.value_for(gen.o.by_path[value_node[0].casefold()])
                        hed = "n/a"
                        if rng.random() < 0.3:
                            hed = annot.render(gen.annotation(depth=2, temporal=False, size=1, reset=False), rng)
                        elif rng.random() < fault_p:
                            hed = "Zzunknownword"
                        rows.append("\t".join([repr(0.5 * (i + 1)), "0.5", rng.choice(KEYS["trial_type"] + ["n/a"]),
                                               rng.choice(KEYS["response"] + ["n/a", "other"]), rt, hed]))
                    put(f"{base}/eeg/{stem}_events.tsv", "\n".join(rows) + "\n")
                    if rng.random() < 0.15:
                        put(f"{base}/eeg/{stem}_events.json", sidecar_content())
    # a second kind of tabular file with its own sidecars (takes part only when the caller names its suffix)
    if rng.random() < 0.5:
        if rng.random() < 0.7:
            put("beh.json", sidecar_content())
        for s in range(1, nsub + 1):
            sub = f"{s:02d}"
            if rng.random() < 0.3:
                put(f"sub-{sub}/sub-{sub}_beh.json", sidecar_content())
            rows = ["trial_type\tresponse\tHED"]
            for i in range(rng.randrange(1, 4)):
                hed = "Zzunknownword" if rng.random() < 0.3 else rng.choice(["n/a", "Red", "(Green, Blue)"])
                rows.append("\t".join([rng.choice(KEYS["trial_type"] + ["n/a"]), rng.choice(KEYS["response"] + ["n/a"]), hed]))
            put(f"sub-{sub}/beh/sub-{sub}_task-A_beh.tsv", "\n".join(rows) + "\n")
    # decoys in excluded directories (content that would raise errors if it took part)
    for d in rng.sample(EXCLUDE, rng.randrange(1, 4)):
        put(f"{d}/sub-01/eeg/sub-01_task-A_events.tsv", "onset\tduration\tHED\n1.0\t0.5\tZznotatag-decoy\n")
        # (one sidecar per directory: two applicable ones at one level are not a legal tree once the directory takes part)
        if rng.random() < 0.5:
            put(f"{d}/task-A_events.json", {"trial_type": {"HED": {"go": "Zznotatag-decoy"}}})
        else:
            put(f"{d}/events.json", {"response": {"HED": {"left": "Zznotatag-decoy, (("}}})
    if rng.random() < 0.3:     # an excluded directory name deeper in the tree
        put("sub-01/derivatives/sub-01_task-A_events.tsv", "onset\tduration\tHED\n1.0\t0.5\tZznotatag-decoy\n")
    return files


def write_tree(root, files):
    for rel, obj in files.items():
        p = os.path.join(root, rel)
        os.makedirs(os.path.dirname(p), exist_ok=True)
        with open(p, "w") as f:
            if isinstance(obj, str):
                f.write(obj)
            else:
                json.dump(obj, f)


def issue_key(i):
    return (i["code"], i["severity"], str(i.get("ec_filename")), i.get("ec_row"), str(i.get("ec_column")),
            str(i.get("ec_sidecarColumnName")), str(i.get("ec_sidecarKeyName")))


def expected_issues(root, schema, check_for_warnings, EXCLUDE=EXCLUDE, suffixes=("events",)):        # noqa (default: the package's default)
    out = []
    for suffix in suffixes:
        out += expected_issues_of(root, schema, check_for_warnings, EXCLUDE, suffix)
    return out


def expected_issues_of(root, schema, check_for_warnings, EXCLUDE, suffix):        # noqa
    from hed.models.sidecar import Sidecar
    from hed.models.tabular_input import TabularInput
    from hed.errors.error_reporter import ErrorHandler
    out = []
    sidecars = bids_oracle.data_files(root, suffix, ".json", EXCLUDE)
    for s in sidecars:
        chain = bids_oracle.chain_for(root, s, EXCLUDE)
        out += Sidecar(chain, name=os.path.basename(s)).validate(schema, name=os.path.basename(s),
                                                                  error_handler=ErrorHandler(check_for_warnings))
    for f in bids_oracle.data_files(root, suffix, ".tsv", EXCLUDE):
        chain = bids_oracle.chain_for(root, f, EXCLUDE)
        sc = Sidecar(chain) if chain else None
        out += TabularInput(f, sc, name=f).validate(schema, name=os.path.basename(f),
                                                    error_handler=ErrorHandler(check_for_warnings))
    return out


def check_case(case, rec):
    from hed.tools.bids.bids_dataset import BidsDataset
    schema = env.schema("8.3.0")
    root = os.path.join(env.scratch(), f"ds-{os.getpid()}")
    shutil.rmtree(root, ignore_errors=True)
    os.makedirs(root)
    try:
        write_tree(root, case["files"])
        _check(root, case, rec, schema, BidsDataset)
    finally:
        shutil.rmtree(root, ignore_errors=True)


def _check(root, case, rec, schema, BidsDataset):
    try:
        ds = BidsDataset(root, schema=schema)
    except Exception as ex:  # noqa
        rec.violation(f"BidsDataset constructor raised {type(ex).__name__}", case)
        return
    grp = ds.get_tabular_group("events")
    want_files = sorted(os.path.realpath(p) for p in bids_oracle.data_files(root, "events", ".tsv", EXCLUDE))
    got_files = sorted(grp.datafile_dict)
    rec.mon("excluded-dirs-ignored")
    if got_files != want_files:
        rec.violation("set of events files differs from the files outside excluded directories", case)
        return
    want_sc = sorted(os.path.realpath(p) for p in bids_oracle.data_files(root, "events", ".json", EXCLUDE))
    if sorted(grp.sidecar_dict) != want_sc:
        rec.violation("set of sidecar files differs from the sidecars outside excluded directories", case)
        return
    multi = False
    for f in want_files:
        chain = bids_oracle.chain_for(root, f, EXCLUDE)
        multi = multi or len(chain) >= 2
        rec.mon("merged-sidecar-equals-model")
        rec.count("chain-length", str(len(chain)))
        obj = grp.datafile_dict[f]
        model = bids_oracle.merged(chain)
        if not chain:
            if obj.sidecar is not None:
                rec.violation("events file with no applicable sidecar was given one", dict(case, file=os.path.relpath(f, root)))
            continue
        got = obj.sidecar.contents.loaded_dict if obj.sidecar is not None else None
        if got != model:
            key = None
            if got is not None:
                deepest = bids_oracle.merged(bids_oracle.chain_for(root, chain[-1], EXCLUDE))
                if got == deepest:
                    key = "sidecar-chain-of-deepest"
            rec.violation("merged sidecar of an events file differs from the top-down merge of its applicable sidecars",
                          dict(case, file=os.path.relpath(f, root), chain=[os.path.relpath(c, root) for c in chain]), key=key)
    case["_multi"] = multi
    # the caller's own exclusion list, including an empty one (nothing excluded)
    for excl in ([], ["derivatives"]):
        rec.mon("explicit-exclusion-list")
        try:
            ds2 = BidsDataset(root, schema=schema, exclude_dirs=list(excl))
            g2 = ds2.get_tabular_group("events")
            got2 = ds2.validate(check_for_warnings=False)
            want2 = expected_issues(root, schema, False, excl)
        except Exception as ex:  # noqa
            rec.violation(f"dataset with an explicit exclusion list raised {type(ex).__name__}", dict(case, exclude=excl))
            continue
        if sorted(g2.datafile_dict) != sorted(os.path.realpath(p) for p in bids_oracle.data_files(root, "events", ".tsv", excl)):
            rec.violation("with an explicit exclusion list the set of events files is not the files outside those directories",
                          dict(case, exclude=excl))
        elif sorted(issue_key(i) for i in got2) != sorted(issue_key(i) for i in want2):
            rec.violation("with an explicit exclusion list the dataset issues differ from the union over the files that take part",
                          dict(case, exclude=excl), key="sidecar-chain-of-deepest" if multi else None)
    # several kinds of tabular file asked for at once, in either order: the issues of all of them are returned
    if any(rel.endswith("_beh.tsv") for rel in case["files"]):
        for types in (["events", "beh"], ["beh", "events"]):
            rec.mon("several-file-kinds-equal-union")
            try:
                ds3 = BidsDataset(root, schema=schema, tabular_types=list(types))
                got3 = ds3.validate(check_for_warnings=False)
                got3b = BidsDataset(root, schema=schema, tabular_types=["events", "beh"]).validate(
                    types=list(types), check_for_warnings=False)
                want3 = expected_issues(root, schema, False, suffixes=types)
            except Exception as ex:  # noqa
                rec.violation(f"dataset with two kinds of tabular file raised {type(ex).__name__}", dict(case, types=types))
                continue
            if want3:
                rec.count("several-file-kinds", "with-issues")
            if sorted(issue_key(i) for i in got3) != sorted(issue_key(i) for i in want3) or \
                    sorted(issue_key(i) for i in got3b) != sorted(issue_key(i) for i in want3):
                rec.violation("with two kinds of tabular file the dataset issues differ from the union over both kinds",
                              dict(case, types=types), key="sidecar-chain-of-deepest" if multi else None)
    for warn in (True, False):
        rec.mon("dataset-issues-equal-union")
        try:
            got = ds.validate(check_for_warnings=warn)
            want = expected_issues(root, schema, warn)
        except Exception as ex:  # noqa
            rec.violation(f"dataset validation raised {type(ex).__name__}", case)
            return
        if sorted(issue_key(i) for i in got) != sorted(issue_key(i) for i in want):
            rec.violation("dataset validation issues differ from the union over merged sidecars and events files",
                          dict(case, check_for_warnings=warn), key="sidecar-chain-of-deepest" if case.get("_multi") else None)
        # CLI
        rec.mon("cli-exit-status")
        argv = sys.argv
        out = io.StringIO()
        try:
            sys.argv = ["hed_validator", root] + (["--check-for-warnings"] if warn else []) + \
                (["-f", "json"] if case.get("cli_json") else [])
            from hed.scripts import hed_validator
            with contextlib.redirect_stdout(out):
                rc = hed_validator.main()
        except SystemExit as ex:
            rc = ex.code
        except Exception as ex:  # noqa
            rec.violation(f"command-line validator raised {type(ex).__name__}", dict(case, check_for_warnings=warn),
                          key="cli-json-not-serialisable" if case.get("cli_json") else None)
            continue
        finally:
            sys.argv = argv
        if bool(rc) != bool(want):
            rec.violation("command-line validator exit status does not reflect whether issues exist",
                          dict(case, check_for_warnings=warn, rc=rc, expected_issues=len(want)),
                          key="sidecar-chain-of-deepest" if case.get("_multi") else None)


def run_shard(shard, rec):
    rng = rec.rng
    rng.seed(f"c16-{shard['stream']}-{rng.random()}")
    gen = annot.AnnotGen(schema_xml.load("8.3.0"), rng)
    for k in range(shard["n"]):
        root = os.path.join(env.scratch(), f"gen-{os.getpid()}")
        shutil.rmtree(root, ignore_errors=True)
        os.makedirs(root)
        try:
            files = build_tree(root, rng, gen)
        except RuntimeError:
            rec.discard()
            continue
        finally:
            shutil.rmtree(root, ignore_errors=True)
        case = dict(files=files, cli_json=(k % 3 == 0))
        check_case(case, rec)
        rec.case(json.dumps(files, sort_keys=True), nontrivial=bool(case.pop("_multi", False)))
        if rng.random() < 0.05:
            rec.sample(sorted(files))


def replay(case, rec):
    check_case(case, rec)
