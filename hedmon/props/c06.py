"""C06 Event-file rows assemble into exactly the annotation the sidecar prescribes.

Reference model over plain dicts (gen/tables.py); comparison on canonical unordered trees; snapshots of the table
and the sidecar around every call.
"""
import copy
import os
import io
import json
import zlib

from hedmon.core import env
from hedmon.gen import annot, tables
from hedmon.oracle import hedparse, schema_xml

ID = "C06"
LEVEL = "exploration"
RULE = ("sidecars with 1-5 columns of kinds {categorical, value, ignored, absent from the file}, HED column present or "
        "not, 0-2 curly-brace references (incl. {HED}; inside groups, at either end, alone in a group); tables of 1-6 rows "
        "over the categories plus n/a, empty and unknown keys, shuffled column order, given as DataFrame and as TSV text. "
        "Monitors: assembled row == model (canonical unordered tree), delimiter well-formedness, row count/order, "
        "repeatability, table (values and dtypes) and sidecar unchanged, skip_curly_braces view. non-trivial = table with "
        ">= 2 HED-bearing columns or a reference; distinct = distinct (sidecar, table)")
ASSUMPTIONS = ["assembly model hedmon/gen/tables.py::model_row is written from the property text",
               "comparison is on unordered trees because the order of the pieces is not part of the property"]
MIN_MONITOR_EVALS = {"sidecar-from-list": 100, "assembled-again-after-set-cell": 300, "sheet-row-equals-model": 500, "row-equals-model": 1500, "well-formed": 1000, "repeatable": 300, "table-unchanged": 300,
                     "sidecar-unchanged": 300, "skip-curly-view": 300, "row-with-reference": 200}
VERSIONS = ["8.3.0", "8.2.0", "score_2.0.0"]


def shards(tier, seed):
    n = {"quick": 1500, "thorough": 60000}[tier]
    out = [dict(n=100, stream=i, version=VERSIONS[(i // 100) % len(VERSIONS)]) for i in range(0, n, 100)]
    m = {"quick": 300, "thorough": 6000}[tier]
    out += [dict(kind="sheet", n=100, stream=i, version=VERSIONS[(i // 100) % len(VERSIONS)]) for i in range(0, m, 100)]
    return out


# words pandas reads as a missing value by default; hed keeps that default when it reads a TSV file
PANDAS_NA_WORDS = {"#N/A", "#N/A N/A", "#NA", "-1.#IND", "-1.#QNAN", "-NaN", "-nan", "1.#IND", "1.#QNAN", "<NA>", "N/A", "NA",
                   "NULL", "NaN", "None", "nan", "null"}


def frame_snapshot(df):
    return (list(df.columns), [str(t) for t in df.dtypes], df.astype(object).where(df.notna(), None).values.tolist())


def check_case(case, rec):
    import pandas as pd
    from hed.models.tabular_input import TabularInput
    from hed.models.sidecar import Sidecar
    b = case["bundle"]
    form = case["form"]
    try:
        if case.get("sidecar_list"):
            # the sidecar handed over as a list of sources: a later source replaces an earlier one's description of a column
            rec.mon("sidecar-from-list")
            sidecar = Sidecar([io.StringIO(json.dumps(part)) for part in case["sidecar_list"]])
        else:
            sidecar = Sidecar(io.StringIO(json.dumps(b["sidecar"])))
        side_before = copy.deepcopy(sidecar.loaded_dict)
        if form in ("frame", "frame-labels", "frame-objects"):
            src = pd.DataFrame(b["rows"], columns=b["columns"])
            if form == "frame-objects":
                # cells that are numbers, not text (an object column mixing numbers and 'n/a')
                src = src.astype(object).apply(lambda col: col.map(lambda c: int(c) if isinstance(c, str) and c.isdigit() else c))
            if form == "frame-labels":
                lab = [3 * i + 7 for i in range(len(src))]
                src.index = lab[len(lab) // 2:] + lab[:len(lab) // 2]
        else:
            src = io.StringIO(tables.to_tsv(b))
        ti = TabularInput(src, sidecar)
        before = frame_snapshot(ti.dataframe)
        s1 = list(ti.series_a)
        s2 = list(ti.series_a)
        dfa = ti.dataframe_a
        raw = ti.assemble(skip_curly_braces=True)
        s3 = list(ti.series_a)
        after = frame_snapshot(ti.dataframe)
        side_after = sidecar.loaded_dict
    except Exception as ex:  # noqa
        rec.violation(f"assembly raised {type(ex).__name__}", case)
        return
    n = len(b["rows"])
    if len(s1) != n or len(dfa) != n or len(raw) != n:
        rec.violation("assembly does not return one annotation per row", case)
        return
    refs = tables.refs_of(b)
    cols = b["columns"]
    for i, row in enumerate(b["rows"]):
        rrow = [c if (c != "" or form != "tsv") else "n/a" for c in row]
        want = tables.model_row(b, rrow)
        got = hedparse.canon_text(s1[i])
        cell = dict(zip(cols, rrow))
        ref_missing = any(r in cell and tables.model_cell(b, r, cell[r]) is None for r in refs)
        if any(r in cell for r in refs):
            rec.mon("row-with-reference")
        empty_value = any(b["kinds"].get(c) == "value" and cell[c] == "" for c in cols)
        key = "value-empty-cell" if empty_value else ("ref-empty-replacement" if ref_missing else None)
        na_word = form == "tsv" and any(str(cell[c]).strip() in PANDAS_NA_WORDS for c in cols
                                        if c == "HED" or b["kinds"].get(c) in ("categorical", "value"))
        if na_word:
            key = "tsv-cell-pandas-na-word"
        rec.mon("row-equals-model")
        if got != want:
            rec.violation("assembled row differs from the annotation the sidecar prescribes", dict(case, row=i, observed=s1[i]),
                          key=key)
        rec.mon("well-formed")
        if s1[i] and not hedparse.delimiter_well_formed(s1[i]):
            rec.violation("assembled row is not delimiter-well-formed", dict(case, row=i, observed=s1[i]), key=key)
        # skip_curly_braces view: each column's cell is the piece before splicing
        bearing = [c for c in cols if c == "HED" or b["kinds"].get(c) in ("categorical", "value")]
        if any(c not in raw.columns for c in bearing):
            rec.violation("assemble(skip_curly_braces=True) lacks a HED-bearing column", dict(case, row=i))
            break
        for c in bearing:
            piece = tables.model_cell(b, c, cell.get(c))
            got_cell = raw[c].iloc[i]
            want_c = hedparse.canon_text(piece) if piece else ()
            got_c = hedparse.canon_text(got_cell) if got_cell not in ("", "n/a") else ()
            if got_c != want_c:
                rec.violation("assemble(skip_curly_braces=True) cell differs from the column's piece",
                              dict(case, row=i, column=c, observed=got_cell),
                              key="tsv-cell-pandas-na-word" if na_word else
                              "value-empty-cell" if (b["kinds"].get(c) == "value" and cell.get(c) == "") else None)
        rec.mon("skip-curly-view")
    rec.mon("repeatable")
    if s1 != s2 or s1 != s3:
        rec.violation("assembly gives a different answer when asked again", case)
    rec.mon("table-unchanged")
    if before != after:
        key = None
        if before[0] == after[0] and before[2] == after[2] and any("category" in t for t in after[1]):
            key = "categorical-dtype-leak"
        rec.violation("assembly changed the table (values or dtypes)", dict(case, dtypes_before=before[1], dtypes_after=after[1]),
                      key=key)
    rec.mon("sidecar-unchanged")
    if side_before != side_after:
        rec.violation("assembly changed the sidecar", case)
    # one object, first used with another sidecar (the same without references), then switched to this one
    if refs and form == "frame":
        import re as _re
        rec.mon("sidecar-switched")
        try:
            plain = json.loads(_re.sub(r"\{[a-z_\-0-9]+\}", "Zzq-noref", json.dumps(b["sidecar"]), flags=_re.I))
            t2 = TabularInput(pd.DataFrame(b["rows"], columns=b["columns"]), Sidecar(io.StringIO(json.dumps(plain))))
            list(t2.series_a)
            t2.reset_column_mapper(Sidecar(io.StringIO(json.dumps(b["sidecar"]))))
            switched = list(t2.series_a)
        except Exception as ex:  # noqa
            rec.violation(f"switching the sidecar of a table raised {type(ex).__name__}", case)
            switched = None
        if switched is not None and [hedparse.canon_text(x) for x in switched] != [hedparse.canon_text(x) for x in s1]:
            rec.violation("a table whose sidecar was switched assembles differently from a fresh table with that sidecar", case)


    # one object assembled, one cell replaced through set_cell, assembled again: the answer follows the table
    if form == "frame" and b["rows"] and not case.get("sidecar_list"):
        from hed.models.hed_string import HedString
        bearing = [c for c in b["columns"] if c == "HED" or b["kinds"].get(c) in ("categorical", "value")]
        if bearing:
            rec.mon("assembled-again-after-set-cell")
            k = zlib.crc32(json.dumps(b["rows"]).encode())
            ri, c = k % len(b["rows"]), bearing[(k // 7) % len(bearing)]
            ci = b["columns"].index(c)
            if c == "HED":
                new_text = "Purple,(Square)"
            elif b["kinds"][c] == "categorical":
                keys = list(b["sidecar"][c]["HED"])
                new_text = keys[(k // 11) % len(keys)]
            else:
                new_text = "n/a"
            rows2 = [list(r) for r in b["rows"]]
            rows2[ri][ci] = new_text
            try:
                t3 = TabularInput(pd.DataFrame(b["rows"], columns=b["columns"]), Sidecar(io.StringIO(json.dumps(b["sidecar"]))))
                list(t3.series_a)
                obj = HedString(new_text, env.schema("8.3.0")) if c == "HED" else None
                if obj is None:
                    class _Text:                 # set_cell only asks its argument for the text in the wanted form
                        def get_as_form(self, tag_form):
                            return new_text
                    obj = _Text()
                t3.set_cell(ri, ci, obj)
                edited = list(t3.series_a)
                fresh = list(TabularInput(pd.DataFrame(rows2, columns=b["columns"]),
                                          Sidecar(io.StringIO(json.dumps(b["sidecar"])))).series_a)
            except Exception as ex:  # noqa
                rec.violation(f"assembling again after set_cell raised {type(ex).__name__}", case)
                edited = None
            if edited is not None and [hedparse.canon_text(x) for x in edited] != [hedparse.canon_text(x) for x in fresh]:
                rec.violation("a table assembled again after a cell was replaced differs from a fresh table with that cell", case)


def check_sheet(case, rec):
    """SpreadsheetInput: tag columns taken as they are, prefix columns as value templates 'Prefix/#'."""
    import pandas as pd
    from hed.models.spreadsheet_input import SpreadsheetInput
    cols, rows = case["columns"], case["rows"]
    try:
        if case["form"] == "frame":
            src = pd.DataFrame(rows, columns=cols)
            obj = SpreadsheetInput(src, tag_columns=case["tag_columns"], column_prefix_dictionary=case["prefixes"])
        elif case["form"] == "xlsx":
            import openpyxl
            wb = openpyxl.Workbook()
            ws = wb.active
            ws.append(list(cols))
            for r in rows:
                # numbers as numeric cells, 'nothing here' as an empty cell
                # (the plain 'other' column always holds text: a row of empty cells only does not exist in a workbook)
                ws.append([c if cols[j] == "other" else None if c in ("", "n/a") else (int(c) if c.isdigit() else c)
                           for j, c in enumerate(r)])
            path = os.path.join(env.scratch(), f"c06-{os.getpid()}.xlsx")
            wb.save(path)
            obj = SpreadsheetInput(path, tag_columns=case["tag_columns"], column_prefix_dictionary=case["prefixes"])
        else:
            text = "\t".join(cols) + "\n" + "\n".join("\t".join(c if c != "" else "n/a" for c in r) for r in rows) + "\n"
            obj = SpreadsheetInput(io.StringIO(text), file_type=".tsv", tag_columns=case["tag_columns"],
                                   column_prefix_dictionary=case["prefixes"])
        before = frame_snapshot(obj.dataframe)
        s1 = list(obj.series_a)
        s2 = list(obj.series_a)
        after = frame_snapshot(obj.dataframe)
    except Exception as ex:  # noqa
        rec.violation(f"spreadsheet assembly raised {type(ex).__name__}", case)
        return
    if len(s1) != len(rows):
        rec.violation("assembly does not return one annotation per row", case)
        return
    for i, row in enumerate(rows):
        cell = dict(zip(cols, row))
        pieces = []
        for c in cols:
            v = cell[c]
            if v in ("", "n/a"):
                continue
            if c in case["tag_columns"]:
                pieces.append(v)
            elif c in case["prefixes"]:
                pre = case["prefixes"][c]
                pieces.append((pre if pre.endswith("/") else pre + "/") + v)
        want = hedparse.canon_text(", ".join(pieces))
        rec.mon("sheet-row-equals-model")
        if hedparse.canon_text(s1[i]) != want:
            rec.violation("assembled spreadsheet row differs from tag columns plus prefixed value columns",
                          dict(case, row=i, observed=s1[i]),
                          key="tsv-cell-pandas-na-word" if (case["form"] == "tsv" and
                                                              any(str(cell[c]).strip() in PANDAS_NA_WORDS
                                                                  for c in case["tag_columns"] + list(case["prefixes"]))) else
                          "value-empty-cell" if any(cell[c] == "" for c in case["prefixes"]) else None)
        if s1[i] and not hedparse.delimiter_well_formed(s1[i]):
            rec.violation("assembled spreadsheet row is not delimiter-well-formed", dict(case, row=i, observed=s1[i]))
    if s1 != s2:
        rec.violation("assembly gives a different answer when asked again", case)
    if before != after:
        rec.violation("assembly changed the table (values or dtypes)", case)


def run_sheets(shard, rec):
    rng = rec.rng
    rng.seed(f"c06-sheet-{shard['stream']}-{rng.random()}")
    gen = annot.AnnotGen(schema_xml.load(shard["version"]), rng)
    for _ in range(shard["n"]):
        gen.used = set()
        try:
            ntag = rng.randrange(1, 4)
            tagcols = [f"tags{i}" for i in range(ntag)]
            pre = {}
            for j in range(rng.randrange(0, 3)):
                node = rng.choice(gen.values)
                pre[f"val{j}"] = node.name + rng.choice(["", "/"])
            cols = tagcols + list(pre) + ["other"]
            rng.shuffle(cols)
            rows = []
            for _r in range(rng.randrange(1, 6)):
                row = []
                for c in cols:
                    q = rng.random()
                    if c in tagcols:
                        row.append("n/a" if q < 0.2 else ("" if q < 0.3 else
                                   annot.render(gen.annotation(depth=2, temporal=False, size=rng.randrange(1, 3), reset=False), rng)))
                    elif c in pre:
                        row.append("n/a" if q < 0.2 else ("" if q < 0.3 else rng.choice(annot.WORDS + ["3", "0", "12", "7"])))
                    else:
                        row.append(rng.choice(["x", "1", "n/a"]))
                rows.append(row)
        except RuntimeError:
            rec.discard()
            continue
        for form in ("frame", "tsv", "xlsx"):
            case = dict(kind="sheet", columns=cols, rows=rows, tag_columns=tagcols, prefixes=pre, form=form)
            rec.case((json.dumps(case, sort_keys=True)), nontrivial=len(tagcols) + len(pre) >= 2)
            check_sheet(case, rec)


def run_shard(shard, rec):
    if shard.get("kind") == "sheet":
        run_sheets(shard, rec)
        return
    rng = rec.rng
    rng.seed(f"c06-{shard['stream']}-{rng.random()}")
    gen = annot.AnnotGen(schema_xml.load(shard["version"]), rng)
    if shard["stream"] == 0:
        # directed probe of a listed finding: a HED cell that is exactly the schema tag 'None'
        b = dict(sidecar={}, kinds={}, columns=["onset", "duration", "HED"],
                 rows=[["0.5", "1", "None"], ["1.5", "1", "(None, Event)"], ["2.5", "n/a", "Event"]])
        for form in ("frame", "tsv"):
            rec.case((json.dumps(b, sort_keys=True), form), False)
            check_case(dict(bundle=b, form=form), rec)
    for k in range(shard["n"]):
        try:
            b = tables.gen_bundle(gen, rng, valid_cells=False)
        except RuntimeError:
            rec.discard()
            continue
        bearing = [c for c in b["columns"] if c == "HED" or b["kinds"].get(c) in ("categorical", "value")]
        nontriv = len(bearing) >= 2 or bool(tables.refs_of(b))
        for form in ("frame", "tsv") + (("frame-labels",) if k % 4 == 0 else ()) + (("frame-objects",) if k % 4 == 1 else ()):
            case = dict(bundle=b, form=form)
            rec.case((json.dumps(b, sort_keys=True), form), nontriv)
            check_case(case, rec)
        if b["sidecar"] and k % 3 == 0:
            parts = stale_then_true(b, rng)
            case = dict(bundle=b, form="frame", sidecar_list=parts)
            rec.case((json.dumps(b, sort_keys=True), json.dumps(parts, sort_keys=True)), nontriv)
            check_case(case, rec)
        rec.count("references", str(len(tables.refs_of(b))))
        if rng.random() < 0.01:
            rec.sample(b)


def stale_then_true(b, rng):
    """The bundle's sidecar as two sources: the first holds an outdated description of some columns (other keys, the
    keys the table uses but the sidecar no longer knows, a template with a reference), the second the true one."""
    cols = list(b["sidecar"])
    over = rng.sample(cols, rng.randrange(1, len(cols) + 1))
    first, second = {}, {}
    for c in cols:
        if c in over:
            second[c] = b["sidecar"][c]
            kind = b["kinds"].get(c)
            if kind == "categorical":
                stale = {k: "Blue" for k in list(b["sidecar"][c]["HED"])[:1]}
                stale.update({"unknownkey": "Red", "zz-old": "(Green, {HED})"})
                first[c] = {"Description": "older text", "HED": stale, "Levels": {"zz-old": "gone"}}
            elif kind == "value":
                first[c] = {"HED": {"unknownkey": "Red", "n1": "Blue"}} if rng.random() < 0.5 else \
                    {"HED": "Description/#, Yellow", "Units": "old"}
            else:
                first[c] = {"HED": {"1": "Red", "x": "Blue", "0.5": "Green"}}
        elif rng.random() < 0.5:
            first[c] = b["sidecar"][c]
        else:
            second[c] = b["sidecar"][c]
    return [first, second]


def replay(case, rec):
    if case.get("kind") == "sheet":
        check_sheet(case, rec)
    else:
        check_case(case, rec)
