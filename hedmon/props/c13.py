"""C13 Library schemas and namespaces compose without changing meaning.

Monitors: (1) relational - codes of a p:-prefixed annotation against the group == codes of the unprefixed
annotation against p's schema alone; same for unprefixed vs the unprefixed member. (2) unknown / non-alphabetic
prefixes are errors. (3) oracle - every standard tag is present and unchanged in each partnered library
(XML oracle and hed's loaded entries). (4) refusals - duplicate versions, different withStandard, clashing clones.
"""
import os
import re

from hedmon.core import env
from hedmon.gen import annot
from hedmon.oracle import schema_xml

ID = "C13"
LEVEL = "exploration"
RULE = ("annotations (valid and with one tree-level fault) from the C01 generator over the vocabulary of one member of a "
        "schema group, rendered unprefixed and with every tag prefixed; groups: 8.3.0+sc:score_2.0.0, 8.2.0+sc:score_1.1.0, "
        "8.2.0+tl:testlib_{2.0.0,2.1.0,3.0.0}, aa:8.3.0+sc:score_2.0.0, xx:8.3.0 alone; plus unknown and non-alphabetic "
        "prefixes, exhaustive vocabulary containment for every partnered library, and a list of load refusals incl. "
        "generated clones of a library. non-trivial = annotation with >= 2 tags; distinct = distinct (group, member, text)")
ASSUMPTIONS = ["relational monitor paired with the XML oracle for containment",
               "prefixing is done on the text of each tag, definitions are prefixed the same way"]
MIN_MONITOR_EVALS = {"load-order-independent": 30, "prefixed-equals-alone": 1500, "bad-prefix-is-error": 200, "standard-tag-in-library": 4000,
                     "refusal": 12, "acceptance": 4, "merged-holds-constituent-tag": 2000,
                     "prefixed-expand-shrink-equals-alone": 200}
GROUPS = [
    (["8.3.0", "sc:score_2.0.0"], [("", "8.3.0"), ("sc:", "score_2.0.0")]),
    (["8.2.0", "sc:score_1.1.0"], [("", "8.2.0"), ("sc:", "score_1.1.0")]),
    (["8.2.0", "tl:testlib_2.0.0"], [("", "8.2.0"), ("tl:", "testlib_2.0.0")]),
    (["8.2.0", "tl:testlib_2.1.0"], [("tl:", "testlib_2.1.0")]),
    (["8.2.0", "tl:testlib_3.0.0"], [("tl:", "testlib_3.0.0"), ("", "8.2.0")]),
    (["aa:8.3.0", "sc:score_2.0.0"], [("aa:", "8.3.0"), ("sc:", "score_2.0.0")]),
    (["xx:8.3.0"], [("xx:", "8.3.0")]),
    # prefixes whose letters, in the same case, are the first letters of tag names
    (["8.3.0", "Sc:score_2.0.0"], [("Sc:", "score_2.0.0")]),
    (["It:8.3.0"], [("It:", "8.3.0")]),
    # two libraries that share a standard partner, merged under one prefix, in both orders
    (["8.2.0", "mm:score_1.1.0", "mm:testlib_2.0.0"], [("mm:", "testlib_2.0.0"), ("mm:", "score_1.1.0"), ("", "8.2.0")]),
    (["mm:testlib_2.0.0", "mm:score_1.1.0"], [("mm:", "testlib_2.0.0"), ("mm:", "score_1.1.0")]),
    # the same groups in the other documented spellings: the libraries of one prefix in one comma-separated element,
    # and the whole list as a JSON string
    (["8.2.0", "mm:score_1.1.0,testlib_2.0.0"], [("mm:", "testlib_2.0.0"), ("mm:", "score_1.1.0"), ("", "8.2.0")]),
    (["mm:testlib_2.0.0,score_1.1.0"], [("mm:", "testlib_2.0.0"), ("mm:", "score_1.1.0")]),
    ('["8.3.0", "sc:score_2.0.0"]', [("", "8.3.0"), ("sc:", "score_2.0.0")]),
    ('["8.2.0", "mm:testlib_2.0.0,score_1.1.0"]', [("mm:", "score_1.1.0"), ("", "8.2.0")]),
    # members of different generations (the character rules changed with 8.3.0): each is judged by its own rules
    (["8.2.0", "sc:score_2.0.0"], [("", "8.2.0"), ("sc:", "score_2.0.0")]),
    (["aa:8.3.0", "sc:score_1.1.0"], [("aa:", "8.3.0"), ("sc:", "score_1.1.0")]),
]
MIXED_GENERATION = {len(GROUPS) - 2, len(GROUPS) - 1}
MERGED = [["score_1.1.0", "testlib_2.0.0"], ["testlib_2.0.0", "score_1.1.0"]]
TREE_KINDS = ["unknown-tag", "extension-forbidden", "requires-child", "bad-unit", "bad-value", "repeated-tag",
              "repeated-group", "taggroup-outside-group", "toplevel-nested", "empty-group", "undeclared-def",
              "def-extra-value", "def-missing-value", "altered-def-expand", "second-event-context",
              "definition-in-annotation"]


def shards(tier, seed):
    per = {"quick": 220, "thorough": 3000}[tier]
    out = []
    for gi, (versions, members) in enumerate(GROUPS):
        for ns, member in members:
            for i in range(0, per, 110):
                out.append(dict(kind="relational", group=gi, ns=ns, member=member, n=min(110, per - i), stream=i))
    for gi, (versions, members) in enumerate(GROUPS):
        for ns, member in members:
            if ns:
                out.append(dict(kind="history", group=gi, ns=ns, member=member, n=12 if tier == "quick" else 60))
    for v in env.PARTNERED:
        out.append(dict(kind="containment", version=v))
    for m in MERGED:
        out.append(dict(kind="merged-containment", versions=m))
    out.append(dict(kind="refusals", clones=4 if tier == "quick" else 40))
    return out


def err_codes(schema, defs, text):
    from hed.models.hed_string import HedString
    from hed.models.definition_dict import DefinitionDict
    from hed.errors.error_types import ErrorSeverity
    dd = DefinitionDict(defs, schema) if defs else None
    issues = HedString(text, schema, def_dict=dd).validate(allow_placeholders=False)
    return sorted(i["code"] for i in issues if i.get("severity", 1) == ErrorSeverity.ERROR)


def err_codes_with_rules_of(schema, rules_from, defs, text):
    """Classifier of the listed finding mixed-generation-character-rules: the codes the member's own schema gives when
    its validator is handed the character / value rules switch of another schema (what happens inside a group)."""
    from hed.models.hed_string import HedString
    from hed.models.definition_dict import DefinitionDict
    from hed.validator.hed_validator import HedValidator
    from hed.validator.util.class_util import UnitValueValidator
    from hed.validator.util.char_util import CharRexValidator
    from hed.errors.error_types import ErrorSeverity
    dd = DefinitionDict(defs, schema) if defs else None
    v = HedValidator(schema, def_dicts=dd)
    flag = rules_from.schema_83_props
    v._validate_characters = flag
    v._unit_validator = UnitValueValidator(modern_allowed_char_rules=flag)
    v._char_validator = CharRexValidator(modern_allowed_char_rules=flag)
    issues = v.validate(HedString(text, schema, def_dict=dd), allow_placeholders=False)
    return sorted(i["code"] for i in issues if i.get("severity", 1) == ErrorSeverity.ERROR)


def check_relational(case, rec):
    versions, _ = GROUPS[case["group"]]
    grp = env.schema(versions)
    alone = env.schema(case["member"])
    try:
        a = err_codes(alone, case["defs"], case["text"])
        b = err_codes(grp, case["pdefs"], case["ptext"])
    except Exception as ex:  # noqa
        rec.violation(f"validate raised {type(ex).__name__}", case)
        return
    rec.mon("prefixed-equals-alone")
    if a != b:
        key = None
        if case["group"] in MIXED_GENERATION:
            try:
                if err_codes_with_rules_of(alone, grp, case["defs"], case["text"]) == b:
                    key = "mixed-generation-character-rules"
            except Exception:  # noqa
                pass
        rec.violation("error codes differ between the member alone and the prefixed annotation in the group",
                      dict(case, codes_alone=a, codes_group=b), key=key)
    # expanding and shrinking definitions: the prefixed annotation goes through the same steps as the unprefixed one
    if case["defs"] and case.get("base") == "valid" and case["ns"]:
        from hed.models.hed_string import HedString
        from hed.models.definition_dict import DefinitionDict
        try:
            ha = HedString(case["text"], alone, DefinitionDict(case["defs"], alone))
            hb = HedString(case["ptext"], grp, DefinitionDict(case["pdefs"], grp))
            steps = []
            for h in (ha, hb):
                h.expand_defs()
                e1 = h.get_as_short()
                codes = sorted(i["code"] for i in h.validate(allow_placeholders=False) if i["severity"] == 1)
                h.shrink_defs()
                steps.append((e1, codes, h.get_as_short()))
        except Exception as ex:  # noqa
            rec.violation(f"expand/shrink of a prefixed annotation raised {type(ex).__name__}", case)
            return
        rec.mon("prefixed-expand-shrink-equals-alone")
        strip = lambda t: t.replace(case["ns"], "")                 # noqa
        if (strip(steps[1][0]), steps[1][1], strip(steps[1][2])) != (strip(steps[0][0]), steps[0][1], strip(steps[0][2])):
            key = None
            if case["group"] in MIXED_GENERATION and strip(steps[1][0]) == strip(steps[0][0]) \
                    and strip(steps[1][2]) == strip(steps[0][2]):
                # the texts agree, only the codes of the validation step differ: is it the rules switch?
                try:
                    exp_text = HedString(case["text"], alone, DefinitionDict(case["defs"], alone)).expand_defs().get_as_short()
                    if err_codes_with_rules_of(alone, grp, case["defs"], exp_text) == steps[1][1]:
                        key = "mixed-generation-character-rules"
                except Exception:  # noqa
                    pass
            rec.violation("expanding / shrinking definitions in a prefixed annotation differs from the unprefixed one", case,
                          key=key)


def check_bad_prefix(case, rec):
    versions, _ = GROUPS[case["group"]]
    grp = env.schema(versions)
    try:
        codes = err_codes(grp, [], case["text"])
    except Exception as ex:  # noqa
        rec.violation(f"validate raised {type(ex).__name__}", case)
        return
    rec.mon("bad-prefix-is-error")
    if not codes:
        rec.violation("annotation with an unloaded / non-alphabetic prefix draws no error", case)
    elif "TAG_NAMESPACE_PREFIX_INVALID" not in codes:
        rec.count("bad-prefix-other-code", "/".join(sorted(set(codes))))


def _with_ns(items, ns):
    return annot.render(items, None, ns)


def run_relational(shard, rec):
    rng = rec.rng
    rng.seed(f"c13-{shard['group']}-{shard['ns']}-{shard['stream']}-{rng.random()}")
    o = schema_xml.load(shard["member"])
    gen = annot.AnnotGen(o, rng)
    versions, _ = GROUPS[shard["group"]]
    vlist = __import__("json").loads(versions) if isinstance(versions, str) else versions
    loaded = {(v.split(":")[0] + ":") if ":" in v else "" for v in vlist}
    defs = pdefs = []
    for i in range(shard["n"]):
        if i % 10 == 0:
            gen.make_defs()
            defs = ["(" + annot.render([annot.tag("Definition", "/" + d["name"] + ("/#" if d["takes_value"] else "")),
                                        annot.group(d["content"])], None, "") + ")" for d in gen.defs]
            pdefs = ["(" + annot.render([annot.tag("Definition", "/" + d["name"] + ("/#" if d["takes_value"] else "")),
                                         annot.group(d["content"])], None, shard["ns"]) + ")" for d in gen.defs]
        try:
            items = gen.annotation(depth=3)
        except RuntimeError:
            rec.discard()
            continue
        kind = "valid"
        if rng.random() < 0.5:
            k = rng.choice(TREE_KINDS)
            saved = set(gen.used)
            try:
                m = annot.mutate(gen, items, k, rng)
            except RuntimeError:
                m = None
            gen.used = saved
            if m is not None and m["items"] is not None:
                items, kind = m["items"], k
        if rng.random() < 0.25 and "label" in o.by_short:
            # a printable non-ASCII value: whether it is acceptable depends on the generation of the member's schema,
            # which must be judged the same way alone and inside the group
            import copy as _copy
            items = _copy.deepcopy(items)
            w = gen.spell(o.by_short["label"]) + "/" + rng.choice(["caf\u00e9", "na\u00efve-x", "\u00dcnit_7", "\u03b1\u03b2"])
            items.append({"t": "tag", "name": w, "suffix": "", "node": None, "role": "raw", "raw": w})
            rec.count("base-kind", "non-ascii-value")
        text = _with_ns(items, "")
        ptext = _with_ns(items, shard["ns"])
        ntags = sum(1 for t, _ in annot.walk(items) if t["t"] == "tag")
        case = dict(kind="relational", group=shard["group"], member=shard["member"], ns=shard["ns"], defs=defs,
                    pdefs=pdefs, text=text, ptext=ptext, base=kind)
        rec.case((shard["group"], shard["member"], shard["ns"], text), nontrivial=ntags >= 2)
        check_relational(case, rec)
        rec.count("base-kind", kind)
        if rng.random() < 0.004:
            rec.sample(case)
        if i % 4 == 0:
            # prefixes that are not loaded - among them the empty one when every member of the group has a prefix
            # ... and a loaded prefix in another letter case (prefixes are case-sensitive)
            recased = [x for p0 in loaded if p0 for x in (p0.upper(), p0.lower(), p0.swapcase()) if x not in loaded]
            bad = rng.choice(["zz:", "q:", "s1:", "s-c:", "a_b:", "9:"] + ([""] * 3 if "" not in loaded else []) + recased * 2)
            if bad in loaded:
                continue
            if bad in recased:
                rec.count("bad-prefix-kind", "loaded-prefix-in-another-case")
            one = annot.render(items[:1], None, bad) if rng.random() < 0.5 else _with_ns(items, bad)
            rec.case((shard["group"], "bad", one))
            check_bad_prefix(dict(kind="bad-prefix", group=shard["group"], text=one), rec)


def run_containment(shard, rec):
    """Every standard tag is in the partnered library with unchanged meaning (XML oracle + hed entries)."""
    v = shard["version"]
    lib_o = schema_xml.load(v)
    std_o = schema_xml.load(lib_o.with_standard)
    lib = env.schema(v)
    std = env.schema(lib_o.with_standard)

    def clean(attrs):
        return {k: (sorted(x) if isinstance(x, list) else x) for k, x in attrs.items() if k != "inLibrary"}
    n = 0
    for node in std_o.nodes:
        n += 1
        rec.mon("standard-tag-in-library")
        case = dict(kind="containment", library=v, node=node.path)
        ln = lib_o.by_path.get(node.path.casefold())
        if ln is None:
            rec.violation("standard tag missing from the merged library XML", case)
            continue
        if clean(ln.attrs) != clean(node.attrs) or (ln.desc or "") != (node.desc or "") or \
                (ln.hash_child is None) != (node.hash_child is None) or \
                (ln.hash_child is not None and clean(ln.hash_child.attrs) != clean(node.hash_child.attrs)):
            rec.violation("standard tag changed (attributes/description/'#' child) in the merged library XML", case)
        e_lib = lib.get_tag_entry(node.path)
        e_std = std.get_tag_entry(node.path)
        if e_lib is None or e_std is None or e_lib.long_tag_name != e_std.long_tag_name:
            rec.violation("hed does not resolve a standard tag in the loaded partnered library", case)
            continue
        if e_lib.attributes != e_std.attributes or e_lib.description != e_std.description or \
                sorted(e_lib.unit_classes) != sorted(e_std.unit_classes) or \
                sorted(e_lib.value_classes) != sorted(e_std.value_classes):
            rec.violation("hed's entry for a standard tag differs between the library and the standard schema", case)
        if e_lib.has_attribute("inLibrary"):
            rec.violation("a standard tag is marked inLibrary in the loaded library", case)
    own = [x for x in lib_o.nodes if "inLibrary" in x.attrs]
    for node in own:
        rec.mon("library-own-tag")
        e = lib.get_tag_entry(node.path)
        if e is None or e.long_tag_name != node.path or e.attributes.get("inLibrary") != lib_o.library:
            rec.violation("library's own tag missing or not marked inLibrary in the loaded schema",
                          dict(kind="containment", library=v, node=node.path))
    rec.bulk(n + len(own), n + len(own))
    rec.sample(dict(kind="containment", library=v, standard=lib_o.with_standard, standard_tags=n, own_tags=len(own)))


def run_merged_containment(shard, rec):
    """A schema merged from two libraries holds every tag of each constituent with unchanged meaning."""
    merged = env.schema(shard["versions"])
    total = 0
    for v in shard["versions"]:
        o = schema_xml.load(v)
        alone = env.schema(v)
        for node in o.nodes:
            total += 1
            rec.mon("merged-holds-constituent-tag")
            case = dict(kind="merged-containment", versions=shard["versions"], constituent=v, node=node.path)
            e_m = merged.get_tag_entry(node.path)
            e_a = alone.get_tag_entry(node.path)
            if e_a is None:
                rec.violation("hed does not resolve a tag of a library loaded alone", case)
                continue
            if e_m is None or e_m.long_tag_name != node.path or merged.get_tag_entry(node.name) is not e_m:
                rec.violation("a tag of a constituent library is missing from the merged schema", case)
                continue
            if e_m.attributes != e_a.attributes or e_m.description != e_a.description or \
                    sorted(e_m.unit_classes) != sorted(e_a.unit_classes) or \
                    sorted(e_m.value_classes) != sorted(e_a.value_classes) or \
                    (node.hash_child is not None) != (merged.get_tag_entry(node.path + "/#") is not None):
                rec.violation("a tag's meaning differs between the merged schema and its library alone", case)
    rec.bulk(total, total)


def make_clone(src_version, new_lib, mode, index):
    """XML text of a clone of a partnered library under a new library name.
    mode 'same': same tags (must clash); 'renamed': every library-owned node renamed (must not clash)."""
    text = open(env.xml_path(src_version), encoding="utf-8").read()
    lib = src_version.split("_")[0]
    text = text.replace(f'library="{lib}"', f'library="{new_lib}"', 1)
    text = re.sub(r"(<name>inLibrary</name>\s*<value>)" + lib + "(</value>)", r"\g<1>" + new_lib + r"\g<2>", text)
    if mode == "renamed":
        o = schema_xml.load(src_version)
        own = sorted({n.name for n in o.nodes if "inLibrary" in n.attrs}, key=len, reverse=True)
        for nm in own:
            text = text.replace(f"<name>{nm}</name>", f"<name>{nm}-c{index}</name>")
            text = text.replace(f"<value>{nm}</value>", f"<value>{nm}-c{index}</value>")
    return text


def expect_load(rec, what, versions, should_load, folder=None):
    from hed.schema import load_schema_version
    from hed.errors.exceptions import HedFileError
    env.clear_hed_caches()
    case = dict(kind="refusal", versions=versions, should_load=should_load, what=what)
    rec.case(("refusal", what, tuple(versions) if isinstance(versions, list) else versions))
    try:
        s = load_schema_version(versions, xml_folder=folder) if folder else load_schema_version(versions)
        ok = True
    except HedFileError:
        ok = False
    except Exception as ex:  # noqa
        rec.violation(f"loading {what} raised {type(ex).__name__} instead of HedFileError", case)
        return
    rec.mon("refusal" if not should_load else "acceptance")
    if ok and not should_load:
        rec.violation(f"{what}: loaded although it must be refused", case)
    if not ok and should_load:
        rec.violation(f"{what}: refused although it is a legal combination", case)


def run_refusals(shard, rec):
    cache = os.path.join(env.scratch(), "cache")
    expect_load(rec, "same library twice (unprefixed)", ["score_2.0.0", "score_2.0.0"], False)
    expect_load(rec, "same library twice (one prefix)", ["sc:score_2.0.0", "sc:score_2.0.0"], False)
    expect_load(rec, "same standard twice", ["8.3.0", "8.3.0"], False)
    expect_load(rec, "two standard schemas under one prefix", ["8.3.0", "8.2.0"], False)
    expect_load(rec, "two standard schemas under one prefix (older first)", ["8.2.0", "8.3.0"], False)
    expect_load(rec, "two standard schemas under one prefix (comma form)", "8.2.0,8.3.0", False)
    expect_load(rec, "two standard schemas under one named prefix", ["ts:8.1.0", "ts:8.3.0"], False)
    expect_load(rec, "same standard twice (comma form)", "8.3.0,8.3.0", False)
    expect_load(rec, "two versions of one library under one prefix", ["testlib_2.0.0", "testlib_2.1.0"], False)
    expect_load(rec, "two versions of one library under one prefix (reversed)", ["testlib_2.1.0", "testlib_2.0.0"], False)
    expect_load(rec, "two library versions clashing only on rooted tags", ["testlib_2.1.0", "testlib_3.0.0"], False)
    expect_load(rec, "two library versions clashing only on rooted tags (reversed)", ["testlib_3.0.0", "testlib_2.1.0"], False)
    expect_load(rec, "two library versions clashing only on rooted tags (prefixed)", ["q:testlib_3.0.0", "q:testlib_2.1.0"], False)
    expect_load(rec, "two libraries sharing withStandard, disjoint tags (reversed)", ["testlib_2.0.0", "score_1.1.0"], True)
    expect_load(rec, "libraries with different withStandard under one prefix", ["score_2.0.0", "testlib_3.0.0"], False)
    expect_load(rec, "standard and its partnered library under one prefix", ["8.3.0", "score_2.0.0"], False)
    expect_load(rec, "non-alphabetic prefix", ["8.3.0", "s1:score_2.0.0"], False)
    expect_load(rec, "two libraries sharing withStandard, disjoint tags", ["score_1.1.0", "testlib_2.0.0"], True)
    expect_load(rec, "distinct prefixes", ["8.3.0", "sc:score_2.0.0"], True)
    expect_load(rec, "same library under two different prefixes", ["sa:score_2.0.0", "sb:score_2.0.0"], True)
    for i in range(shard["clones"]):
        src = ["testlib_2.0.0", "testlib_3.0.0", "score_1.1.0", "testlib_2.1.0"][i % 4]
        for mode, should in (("same", False), ("renamed", True)):
            name = f"clone{'abcdefghij'[i % 10]}{'xyz'[i % 3]}{mode[0]}"
            path = os.path.join(cache, f"HED_{name}_1.0.0.xml")
            with open(path, "w", encoding="utf-8") as f:
                f.write(make_clone(src, name, mode, i))
            expect_load(rec, f"{src} with a clone of itself ({mode} tags)", [src, f"{name}_1.0.0"], should)
            os.remove(path)
    env.clear_hed_caches()


def _history_child(order, versions, member, cases):
    """In a forked child with empty in-memory schema caches: load and validate in the given order."""
    import json as _json
    r, w = os.pipe()
    pid = os.fork()
    if pid == 0:
        out = {}
        try:
            os.close(r)
            from hed.schema import load_schema_version
            env.clear_hed_caches()
            env._schemas.clear()
            for which in order:
                try:
                    if which == "alone":
                        sch = load_schema_version(member)
                        out["alone"] = [err_codes(sch, c["defs"], c["text"]) for c in cases]
                    else:
                        sch = load_schema_version(versions)
                        out["group"] = [err_codes(sch, c["pdefs"], c["ptext"]) for c in cases]
                except Exception as ex:  # noqa
                    out[which] = f"raises:{type(ex).__name__}"
            with os.fdopen(w, "w") as f:
                _json.dump(out, f)
        finally:
            os._exit(0)
    os.close(w)
    with os.fdopen(r) as f:
        data = f.read()
    os.waitpid(pid, 0)
    return _json.loads(data) if data else {}


def run_history(shard, rec):
    """The verdict must not depend on which of the two schemas was loaded and used first in the process."""
    rng = rec.rng
    rng.seed(f"c13-h-{shard['group']}-{shard['ns']}-{rng.random()}")
    versions, _ = GROUPS[shard["group"]]
    o = schema_xml.load(shard["member"])
    gen = annot.AnnotGen(o, rng)
    gen.make_defs()
    mk = lambda ns: ["(" + annot.render([annot.tag("Definition", "/" + d["name"] + ("/#" if d["takes_value"] else "")),       # noqa
                                          annot.group(d["content"])], None, ns) + ")" for d in gen.defs]
    defs, pdefs = mk(""), mk(shard["ns"])
    cases = []
    kinds = ["second-event-context", "second-event-context", "repeated-tag", "toplevel-nested", "requires-child", None, None]
    for i in range(shard["n"]):
        try:
            items = gen.annotation(depth=3)
            k = kinds[i % len(kinds)]
            if k:
                saved = set(gen.used)
                m = annot.mutate(gen, items, k, rng)
                gen.used = saved
                if m is not None and m["items"] is not None:
                    items = m["items"]
        except RuntimeError:
            continue
        cases.append(dict(defs=defs, pdefs=pdefs, text=_with_ns(items, ""), ptext=_with_ns(items, shard["ns"])))
    a = _history_child(["alone", "group"], versions, shard["member"], cases)
    b = _history_child(["group", "alone"], versions, shard["member"], cases)
    case0 = dict(kind="history", group=shard["group"], member=shard["member"], ns=shard["ns"])
    for i, c in enumerate(cases):
        rec.case(("history", shard["group"], shard["member"], c["text"]))
        rec.mon("load-order-independent")
        got = [x.get(k) if isinstance(x.get(k), str) else (x.get(k) or [None] * len(cases))[i]
               for x in (a, b) for k in ("alone", "group")]
        if len({repr(g) for g in got}) != 1:
            key = None
            if shard["group"] in MIXED_GENERATION and got[0] == got[2] and got[1] == got[3]:
                try:     # the order of loading plays no part in it; is it the rules switch?
                    if err_codes_with_rules_of(env.schema(shard["member"]), env.schema(versions), defs, c["text"]) == got[1]:
                        key = "mixed-generation-character-rules"
                except Exception:  # noqa
                    pass
            rec.violation("the verdict depends on whether the prefixed group or the member alone was loaded and used first",
                          dict(case0, text=c["text"], ptext=c["ptext"], defs=defs, pdefs=pdefs,
                               alone_first=[got[0], got[1]], group_first=[got[2], got[3]]), key=key)
            break


def run_shard(shard, rec):
    if shard["kind"] == "history":
        run_history(shard, rec)
        return
    if shard["kind"] == "relational":
        run_relational(shard, rec)
    elif shard["kind"] == "containment":
        run_containment(shard, rec)
    elif shard["kind"] == "merged-containment":
        run_merged_containment(shard, rec)
    else:
        run_refusals(shard, rec)


def replay(case, rec):
    if case["kind"] == "relational":
        check_relational(case, rec)
    elif case["kind"] == "bad-prefix":
        check_bad_prefix(case, rec)
    elif case["kind"] == "containment":
        run_containment(dict(version=case["library"]), rec)
    elif case["kind"] == "merged-containment":
        run_merged_containment(dict(versions=case["versions"]), rec)
    elif case["kind"] == "history":
        versions, _ = GROUPS[case["group"]]
        cs = [dict(defs=case["defs"], pdefs=case["pdefs"], text=case["text"], ptext=case["ptext"])]
        a = _history_child(["alone", "group"], versions, case["member"], cs)
        b = _history_child(["group", "alone"], versions, case["member"], cs)
        if len({repr(x.get(k)) for x in (a, b) for k in ("alone", "group")}) != 1:
            rec.violation("the verdict depends on whether the prefixed group or the member alone was loaded and used first", case)
    else:
        expect_load(rec, case["what"], case["versions"], case["should_load"])


def finalize(merged, tier, inconclusive):
    got = merged.hist.get("bad-prefix-kind", {}).get("loaded-prefix-in-another-case", 0)
    if got < 50:
        inconclusive.append(f"annotations carrying a loaded prefix in another letter case: {got} (< 50)")
