"""C19 The schema cache never serves or keeps a torn schema file   (level: fault_enumeration).

(1) crash enumeration over first-use population of an empty cache (every file-system step incl. each 64 kB copy
chunk), followed by a fresh process loading bundled versions; (2) the same over the download path with an in-memory
fake of the GitHub listing; (3) sampled schedules of 2-3 populating processes and one loader with seeded delays at
every audit event; (4) lock histories checked offline for overlapping [enter, exit] intervals, plus the timeout path;
(5) refresh inside the interval performs no work.
"""
import hashlib
import json
import os
import random
import shutil
import sys
import time

from hedmon.core import env, faults

ID = "C19"
LEVEL = "fault_enumeration"
RULE = ("crash points: every file-system step of cache population through cache_local_versions / get_hed_versions / "
        "load_schema_version(first use) / get_library_data / cache_xml_versions(fake network), each followed by loads of "
        "bundled versions from a fresh process and a byte comparison of the cache files; schedules: 2-3 populators + 1 "
        "loader with seeded 0-2 ms delays at audit events; lock histories of 3-4 workers x 5 acquisitions and a long "
        "holder. non-trivial = crash point inside a copy / a schedule whose merged event order is new; distinct = distinct "
        "(entry point, crash step) or interleaving hash")
ASSUMPTIONS = ["a crash is process death immediately before a file-system step; written data is durable",
               "interleavings are sampled with injected delays between real processes, not enumerated",
               "the network is replaced by an in-memory fake of the GitHub listing in the download scenarios only"]
MIN_MONITOR_EVALS = {"crash-point": 60, "post-crash-load": 120, "cache-files-byte-identical": 60, "schedule": 10,
                     "lock-interval-pairs": 50, "lock-timeout": 3, "refresh-skipped": 6,
                     "failed-refresh": 10}
WATCHDOG_S = {"quick": 1200, "thorough": 7200}
JOBS = {"quick": 16, "thorough": 16}
LOAD_Q = ["8.3.0", "score_2.0.0", "testlib_3.0.0"]


def EXHAUSTIVE(tier):
    return "every file-system step of each observed cache population is used as a crash point"


def shards(tier, seed):
    out = []
    entries = ["cache_local_versions", "get_hed_versions", "load_first_use", "get_library_data", "download-empty",
               "download-partial"]
    for e in entries:
        nparts = 4 if e != "get_library_data" else 1
        for part in range(nparts):
            out.append(dict(kind="crash", entry=e, part=part, parts=nparts,
                            loads=LOAD_Q if tier == "quick" else env.BUNDLED))
    ns = {"quick": 40, "thorough": 2000}[tier]
    out += [dict(kind="schedule", n=5, stream=i) for i in range(0, ns, 5)]
    nl = {"quick": 20, "thorough": 500}[tier]
    out += [dict(kind="locks", n=5, stream=i) for i in range(0, nl, 5)]
    out.append(dict(kind="timeout-refresh"))
    for start in ("empty", "partial"):
        out.append(dict(kind="failed-refresh", start=start, loads=LOAD_Q if tier == "quick" else env.BUNDLED,
                        stride=2 if tier == "quick" else 1))
    return out


# ------------------------------------------------------------------------------------------ helpers
def bundled_files():
    d = env.SCHEMA_DATA
    return {n: open(os.path.join(d, n), "rb").read() for n in os.listdir(d) if os.path.isfile(os.path.join(d, n))}


def use_cache(cache):
    from hed.schema import hed_cache
    hed_cache.HED_CACHE_DIRECTORY = cache
    env.clear_hed_caches()


class FakeNet:
    """In-memory GitHub listing of the bundled schemas."""

    def __init__(self):
        self.requests = 0
        self.files = bundled_files()

    def _sha(self, data):
        h = hashlib.sha1()
        h.update(f"blob {len(data)}\0".encode())
        h.update(data)
        return h.hexdigest()

    def listing(self, url):
        import urllib.error
        from hed.schema import hed_cache
        std, lib = hed_cache.DEFAULT_HED_LIST_VERSIONS_URL, hed_cache.LIBRARY_HED_URL
        if url.endswith("/prerelease"):
            raise urllib.error.URLError("no prerelease folder")
        if url == std + "/hedxml":
            names = [n for n in self.files if not n.startswith("HED_")]
        elif url == lib:
            return [dict(type="dir", name="score"), dict(type="dir", name="testlib"), dict(type="dir", name="deprecated")]
        elif url.startswith(lib + "/") and url.endswith("/hedxml"):
            libname = url[len(lib) + 1:-len("/hedxml")]
            names = [n for n in self.files if n.startswith(f"HED_{libname}_")]
        else:
            raise urllib.error.URLError("unknown url " + url)
        return [dict(type="file", name=n, sha=self._sha(self.files[n]), download_url="fake://" + n) for n in sorted(names)]

    def install(self, fail_at=None):
        """Replace the network at the lowest boundary hed uses (urllib.request.urlopen), so that hed's own request,
        download-to-temporary-file and move-into-the-cache code all run. fail_at: the k-th request raises URLError."""
        import io as _io
        import urllib.request
        import urllib.error
        net = self

        def urlopen(request, *args, **kwargs):
            url = getattr(request, "full_url", request)
            net.requests += 1
            if fail_at is not None and net.requests == fail_at:
                raise urllib.error.URLError("injected network failure")
            if url.startswith("fake://"):
                return _io.BytesIO(net.files[url[len("fake://"):]])
            from hed.schema import hed_cache as _hc
            if url == _hc.LIBRARY_DATA_URL:
                return _io.BytesIO(json.dumps({"": {"id_range": [10000, 40000]}, "score": {"id_range": [40401, 41000]}}).encode())
            return _io.BytesIO(json.dumps(net.listing(url)).encode())
        self._saved = urllib.request.urlopen
        urllib.request.urlopen = urlopen

    def uninstall(self):
        import urllib.request
        urllib.request.urlopen = self._saved


def populate_fn(entry, cache):
    def fn():
        from hed.schema import hed_cache, load_schema_version
        hed_cache.copyfile = shutil.copyfile          # name bound at import time: route it through the stepping copier
        use_cache(cache)
        if entry == "cache_local_versions":
            return hed_cache.cache_local_versions(cache)
        if entry == "get_hed_versions":
            return str(hed_cache.get_hed_versions(cache, library_name="all"))[:50]
        if entry == "load_first_use":
            load_schema_version("8.2.0")
            return "loaded"
        if entry == "get_library_data":
            return str(hed_cache.get_library_data("score", cache))[:50]
        net = FakeNet()
        net.install()
        return hed_cache.cache_xml_versions(cache_folder=cache)
    return fn


_refs = {}


def reference(v):
    if v not in _refs:
        _refs[v] = env.schema(v)
    return _refs[v]


def load_in_fresh_process(cache, versions):
    """Fork a process that has never used this cache; returns {version: outcome}."""
    for v in versions:
        reference(v)
    r, w = os.pipe()
    pid = os.fork()
    if pid == 0:
        out = {}
        try:
            os.close(r)
            from hed.schema import load_schema_version
            from hed.errors.exceptions import HedFileError
            use_cache(cache)
            for v in versions:
                try:
                    s = load_schema_version(v)
                    out[v] = "ok" if s == _refs[v] else "differs"
                except HedFileError as ex:
                    out[v] = f"raises:HedFileError:{ex.code}"
                except Exception as ex:  # noqa
                    out[v] = f"raises:{type(ex).__name__}"
            with os.fdopen(w, "w") as f:
                json.dump(out, f)
        finally:
            os._exit(0)
    os.close(w)
    with os.fdopen(r) as f:
        data = f.read()
    os.waitpid(pid, 0)
    return json.loads(data) if data else {v: "loader-died" for v in versions}


def check_cache_files(cache, rec, case):
    """Every cache file carrying a bundled file's name must be byte-identical to it."""
    ref = bundled_files()
    rec.mon("cache-files-byte-identical")
    bad = []
    for n in os.listdir(cache):
        p = os.path.join(cache, n)
        if os.path.isfile(p) and n in ref:
            with open(p, "rb") as f:
                if f.read() != ref[n]:
                    bad.append(n)
    if bad:
        rec.violation("the cache keeps a schema file whose bytes differ from the installed file", dict(case, files=bad[:5]),
                      key="torn-install-copy")


def classify_load(outcomes, case):
    vals = set(outcomes.values())
    if any("cannotParse" in v or "differs" in v for v in vals):
        return "torn-install-copy"
    if any("URLError" in v or "fileNotFound" in v for v in vals):
        return "partial-population-not-repaired"
    return None


# ------------------------------------------------------------------------------------------ (1)(2) crash enumeration
def run_crash(shard, rec):
    entry = shard["entry"]
    base = os.path.join(env.scratch(), f"c19-{os.getpid()}")
    shutil.rmtree(base, ignore_errors=True)
    cache = os.path.join(base, "cache")

    def reset():
        shutil.rmtree(cache, ignore_errors=True)
        os.makedirs(cache)
        if entry == "download-partial":            # a cache left behind by an earlier interrupted population
            files = bundled_files()
            for n in ("HED8.2.0.xml", "HED_score_2.0.0.xml"):
                with open(os.path.join(cache, n), "wb") as f:
                    f.write(files[n])
            with open(os.path.join(cache, "last_update.txt.old"), "w") as f:
                f.write("junk")
    reset()
    fn = populate_fn(entry, cache)
    dry = faults.run_with_crash(fn, cache, None, timeout=300)
    case0 = dict(kind="crash", entry=entry)
    if dry["status"] != "done" or not dry["steps"]:
        rec.violation(f"population did not complete in the dry run ({dry['status']}: {dry.get('message')})", case0)
        return
    if shard["part"] == 0:
        check_cache_files(cache, rec, dict(case0, step="none (completed population)"))
        got = load_in_fresh_process(cache, shard["loads"])
        rec.mon("post-crash-load", len(got))
        if set(got.values()) != {"ok"}:
            rec.violation("load after a completed population fails or differs", dict(case0, outcomes=got),
                          key=classify_load(got, case0))
    n = dry["steps"]
    kinds = {s[0]: s[1] for s in dry["log"]}
    nontriv = 0
    for k in range(1 + shard["part"], n + 1, shard["parts"]):
        reset()
        res = faults.run_with_crash(fn, cache, k, timeout=300)
        rec.mon("crash-point")
        what = kinds.get(k, "?")
        rec.count("crash-step-kind", what)
        if what in ("copy-chunk", "write"):
            nontriv += 1
        if res["status"] != "crashed":
            rec.violation(f"harness: child did not crash at step {k}/{n} ({res['status']})", dict(case0, step=k))
            continue
        case = dict(case0, step=k, of=n, step_kind=what)
        got = load_in_fresh_process(cache, shard["loads"])
        rec.mon("post-crash-load", len(got))
        for v in set(got.values()):
            rec.count("post-crash-load-outcome", v)
        if set(got.values()) != {"ok"}:
            rec.violation("after an interrupted population a load of a bundled version fails or returns different content",
                          dict(case, outcomes=got), key=classify_load(got, case))
        check_cache_files(cache, rec, case)
    rec.bulk(len(range(1 + shard["part"], n + 1, shard["parts"])), nontriv)
    if shard["part"] == 0:
        rec.sample(dict(entry=entry, steps=n, step_kinds=[kinds[k] for k in sorted(kinds)][:40]))
        rec.count("crash-points-per-entry", f"{entry}={n}")
    shutil.rmtree(base, ignore_errors=True)


# ------------------------------------------------------------------------------------------ (3) schedules
def _delayed_child(idx, seed, prefix, logpath, body, pause=None):
    """Run body() in this (forked) process with a seeded sleep injected at every audit event under prefix.
    pause = (event, name suffix, seconds): a long stop at those events (e.g. just before a staged file is moved)."""
    rng = random.Random(seed)
    events = []

    def hook(event, args):
        if event in ("open", "os.mkdir", "os.rename", "os.remove", "shutil.copyfile", "os.listdir", "os.utime", "os.chmod"):
            try:
                p = os.fsdecode(args[0]) if isinstance(args[0], (str, bytes)) else ""
            except Exception:  # noqa
                p = ""
            if p.startswith(prefix):
                events.append((time.monotonic_ns(), idx, event, os.path.basename(p)))
                time.sleep(rng.random() * 0.002)
                if pause and event == pause[0] and p.endswith(pause[1]):
                    time.sleep(pause[2])
    sys.addaudithook(hook)
    out = dict(idx=idx)
    try:
        out["result"] = body()
    except BaseException as ex:  # noqa
        out["result"] = f"raises:{type(ex).__name__}"
    out["events"] = events
    with open(logpath, "w") as f:
        json.dump(out, f, default=repr)
    os._exit(0)


def run_schedules(shard, rec):
    for v in LOAD_Q:
        reference(v)
    for k in range(shard["n"]):
        seed = f"c19-s-{shard['stream']}-{k}-{rec.rng.random()}"
        rng = random.Random(seed)
        base = os.path.join(env.scratch(), f"c19s-{os.getpid()}")
        shutil.rmtree(base, ignore_errors=True)
        cache = os.path.join(base, "cache")
        os.makedirs(cache)
        npop = rng.choice([2, 3])
        versions = rng.sample(LOAD_Q + ["8.2.0", "score_1.1.0"], 2)
        pids = []
        for i in range(npop + 1):
            logpath = os.path.join(base, f"log{i}.json")
            pid = os.fork()
            if pid == 0:
                try:
                    from hed.schema import hed_cache, load_schema_version
                    use_cache(cache)
                    if i < npop:
                        how = rng.choice(["cache_local_versions", "get_hed_versions"])
                        body = (lambda: hed_cache.cache_local_versions(cache)) if how == "cache_local_versions" else \
                            (lambda: str(hed_cache.get_hed_versions(cache, library_name="all"))[:30])
                    else:
                        def body():
                            out = {}
                            for v in versions:
                                try:
                                    out[v] = "ok" if load_schema_version(v) == _refs.get(v, reference(v)) else "differs"
                                except Exception as ex:  # noqa
                                    out[v] = f"raises:{type(ex).__name__}:{getattr(ex, 'code', '')}"
                            return out
                    time.sleep(rng.random() * 0.01 * (i + 1))
                    # every other schedule: the first populator stops for a while each time it is about to move a staged
                    # file into place, so that the others (and the loader) run while staged files lie in the cache
                    pause = ("os.rename", ".tmp", 0.04) if (k % 2 == 0 and i == 0) else None
                    _delayed_child(i, f"{seed}-{i}", cache, logpath, body, pause)
                finally:
                    os._exit(1)
            pids.append(pid)
        deadline = time.time() + 120
        for pid in pids:
            while True:
                p, st = os.waitpid(pid, os.WNOHANG)
                if p:
                    break
                if time.time() > deadline:
                    os.kill(pid, 9)
                time.sleep(0.01)
        logs = []
        for i in range(npop + 1):
            try:
                logs.append(json.load(open(os.path.join(base, f"log{i}.json"))))
            except Exception:  # noqa
                logs.append(dict(idx=i, result="no-log", events=[]))
        merged = sorted((e for lg in logs for e in lg["events"]), key=lambda e: e[0])
        sig = hashlib.blake2b(json.dumps([(e[1], e[2], e[3]) for e in merged]).encode(), digest_size=8).hexdigest()
        rec.mon("schedule")
        rec.case(sig, nontrivial=len({e[1] for e in merged}) >= 2)
        rec.count("schedule-events", str(len(merged) // 50 * 50))
        loader = logs[npop]["result"]
        case = dict(kind="schedule", seed=seed, populators=npop, versions=versions, loader=loader,
                    populator_results=[lg["result"] for lg in logs[:npop]])
        if any(isinstance(r, str) and r.startswith("raises:") for r in case["populator_results"]):
            rec.violation("a process populating the cache beside others raised", case)
        if not isinstance(loader, dict) or set(loader.values()) != {"ok"}:
            rec.violation("a load concurrent with cache population fails or returns different content", case,
                          key=classify_load(loader, case) if isinstance(loader, dict) else None)
        # after everything finished: later load + byte identity
        later = load_in_fresh_process(cache, versions)
        if set(later.values()) != {"ok"}:
            rec.violation("a load after concurrent population fails or returns different content", dict(case, later=later),
                          key=classify_load(later, case))
        check_cache_files(cache, rec, case)
        if rec.rng.random() < 0.1:
            rec.sample(dict(signature=sig, events=len(merged), first_events=[(e[1], e[2], e[3]) for e in merged[:12]]))
        shutil.rmtree(base, ignore_errors=True)


# ------------------------------------------------------------------------------------------ (4)(5) lock
def run_locks(shard, rec):
    for k in range(shard["n"]):
        seed = f"c19-l-{shard['stream']}-{k}-{rec.rng.random()}"
        rng = random.Random(seed)
        base = os.path.join(env.scratch(), f"c19l-{os.getpid()}")
        shutil.rmtree(base, ignore_errors=True)
        folder = os.path.join(base, "cache")
        os.makedirs(folder)
        nworkers = rng.choice([3, 4])
        pids = []
        for i in range(nworkers):
            pid = os.fork()
            if pid == 0:
                try:
                    from hed.schema.hed_cache_lock import CacheLock, CacheException
                    r2 = random.Random(f"{seed}-{i}")
                    out = []
                    for j in range(5):
                        time.sleep(r2.random() * 0.01)
                        try:
                            with CacheLock(folder, write_time=False):
                                t0 = time.monotonic_ns()
                                time.sleep(r2.random() * 0.02)
                                out.append(("held", t0, time.monotonic_ns()))
                        except CacheException:
                            out.append(("gave-up", time.monotonic_ns(), 0))
                        except Exception as ex:  # noqa
                            out.append((f"raises:{type(ex).__name__}", time.monotonic_ns(), 0))
                    with open(os.path.join(base, f"w{i}.json"), "w") as f:
                        json.dump(out, f)
                finally:
                    os._exit(0)
            pids.append(pid)
        for pid in pids:
            os.waitpid(pid, 0)
        held = []
        for i in range(nworkers):
            try:
                for kind, a, b in json.load(open(os.path.join(base, f"w{i}.json"))):
                    rec.count("lock-outcome", kind)
                    if kind == "held":
                        held.append((a, b, i))
                    elif kind != "gave-up":
                        rec.violation("a lock holder that could not get the lock did something other than raise the cache "
                                      "error", dict(kind="locks", seed=seed, outcome=kind))
            except Exception:  # noqa
                pass
        held.sort()
        overlaps = 0
        for x in range(len(held)):
            for y in range(x + 1, len(held)):
                if held[y][2] != held[x][2]:
                    rec.mon("lock-interval-pairs")
                    if held[y][0] < held[x][1]:
                        overlaps += 1
        rec.case(seed)
        if overlaps:
            rec.violation("two holders of the cache lock for one directory overlap in time",
                          dict(kind="locks", seed=seed, workers=nworkers, overlapping_pairs=overlaps, holds=len(held)),
                          key="lock-not-acquired")
        shutil.rmtree(base, ignore_errors=True)


def run_timeout_refresh(shard, rec):
    from hed.schema.hed_cache_lock import CacheLock, CacheException
    from hed.schema import hed_cache
    base = os.path.join(env.scratch(), f"c19t-{os.getpid()}")
    shutil.rmtree(base, ignore_errors=True)
    folder = os.path.join(base, "cache")
    os.makedirs(folder)
    # long holder -> the waiter must give up with CacheException and must not enter
    for attempt in range(3):
        # the same directory may be spelled with or without a trailing separator by the two processes
        held_as = folder if attempt == 0 else (folder + os.sep if attempt == 1 else os.path.join(folder, ".", ""))
        r, w = os.pipe()
        pid = os.fork()
        if pid == 0:
            try:
                os.close(r)
                with CacheLock(held_as, write_time=False):
                    os.write(w, b"x")
                    time.sleep(3.0)
            finally:
                os._exit(0)
        os.close(w)
        os.read(r, 1)
        os.close(r)
        rec.mon("lock-timeout")
        t0 = time.time()
        case = dict(kind="timeout")
        try:
            with CacheLock(folder, write_time=False):
                rec.violation("a second holder entered the cache lock while another process held it", case,
                              key="lock-not-acquired")
        except CacheException:
            rec.count("lock-timeout-seconds", str(round(time.time() - t0)))
        except Exception as ex:  # noqa
            rec.violation(f"waiting past the timeout raised {type(ex).__name__} instead of the cache error", case)
        os.waitpid(pid, 0)
    # refresh interval
    for attempt in range(2):
        shutil.rmtree(folder, ignore_errors=True)
        os.makedirs(folder)
        rec.mon("refresh-skipped")
        case = dict(kind="refresh")
        with CacheLock(folder):
            pass
        try:
            with CacheLock(folder):
                rec.violation("a second refresh inside the refresh interval was allowed to run", case)
        except CacheException:
            pass
        shutil.rmtree(folder, ignore_errors=True)
        os.makedirs(folder)
        net = FakeNet()
        try:
            net.install()
            first = hed_cache.cache_xml_versions(cache_folder=folder)
            n1 = net.requests
            second = hed_cache.cache_xml_versions(cache_folder=folder)
            n2 = net.requests - n1
        finally:
            net.uninstall()
        if first != 0 or n1 == 0:
            rec.violation("first cache refresh did not run", dict(case, first=first, requests=n1))
        if second != -1 or n2 != 0:
            rec.violation("a refresh attempted inside the refresh interval performed work", dict(case, second=second, requests=n2))
        check_cache_files(folder, rec, case)
        # a longer history on a virtual clock: refresh, wait out the interval, refresh, try again at once
        import types
        import hed.schema.hed_cache_lock as lockmod
        shutil.rmtree(folder, ignore_errors=True)
        os.makedirs(folder)
        clock = [1_700_000_000.0]
        real_time_mod = lockmod.time
        lockmod.time = types.SimpleNamespace(time=lambda: clock[0])
        rec.mon("refresh-skipped")
        try:
            history = []
            for step, advance in enumerate([0, lockmod.CACHE_TIME_THRESHOLD + 1, 10, 5, lockmod.CACHE_TIME_THRESHOLD + 1, 3]):
                clock[0] += advance
                try:
                    with CacheLock(folder):
                        history.append("ran")
                except CacheException:
                    history.append("skipped")
            if history != ["ran", "ran", "skipped", "skipped", "ran", "skipped"]:
                rec.violation("refresh attempts on a virtual clock are not skipped exactly inside the interval of the last refresh",
                              dict(kind="refresh-history", observed=history))
        finally:
            lockmod.time = real_time_mod
        # the library id data are refreshed from the network the same way: once per interval
        shutil.rmtree(folder, ignore_errors=True)
        os.makedirs(folder)
        net = FakeNet()
        rec.mon("refresh-skipped")
        try:
            net.install()
            hed_cache.get_library_data.cache_clear()
            d1 = hed_cache.get_library_data(f"zzunknownliba{attempt}", folder)
            m1 = net.requests
            d2 = hed_cache.get_library_data(f"zzunknownlibb{attempt}", folder)
            m2 = net.requests - m1
        finally:
            net.uninstall()
            hed_cache.get_library_data.cache_clear()
        if m1 != 1 or d1 != {}:
            rec.violation("library data for an unknown library were not looked up once on the network",
                          dict(kind="refresh-library-data", requests=m1))
        if m2 != 0 or d2 != {}:
            rec.violation("a library-data refresh attempted inside the refresh interval performed work",
                          dict(kind="refresh-library-data", requests=m2))
    rec.bulk(4, 4)
    shutil.rmtree(base, ignore_errors=True)


# ------------------------------------------------------------------------------------------ (5) refresh that fails
def run_failed_refresh(shard, rec):
    """Fault sequence: the k-th network request of a refresh fails (URLError), for every k. Unlike a kill, a failure
    unwinds through the lock's exit code. Whatever it leaves behind, a later process must load the bundled versions."""
    import urllib.error
    base = os.path.join(env.scratch(), f"c19f-{os.getpid()}")
    shutil.rmtree(base, ignore_errors=True)
    cache = os.path.join(base, "cache")

    def reset():
        shutil.rmtree(cache, ignore_errors=True)
        os.makedirs(cache)
        if shard["start"] == "partial":
            files = bundled_files()
            for n in ("HED8.2.0.xml", "HED_score_2.0.0.xml"):
                with open(os.path.join(cache, n), "wb") as f:
                    f.write(files[n])

    def refresh(fail_at):
        """runs in a forked child; returns (outcome text, requests made)"""
        r, w = os.pipe()
        pid = os.fork()
        if pid == 0:
            out = "?"
            net = FakeNet()
            try:
                os.close(r)
                from hed.schema import hed_cache
                use_cache(cache)
                net.install(fail_at=fail_at)
                try:
                    out = f"returned:{hed_cache.cache_xml_versions(cache_folder=cache)}"
                except Exception as ex:  # noqa
                    out = f"raised:{type(ex).__name__}"
            finally:
                try:
                    os.write(w, json.dumps([out, net.requests]).encode())
                finally:
                    os._exit(0)
        os.close(w)
        with os.fdopen(r) as f:
            data = f.read()
        os.waitpid(pid, 0)
        return json.loads(data) if data else ["refresher-died", 0]
    reset()
    outcome, total = refresh(None)
    if not outcome.startswith("returned:0") or total == 0:
        rec.violation("refresh against the fake listing did not complete", dict(kind="failed-refresh", outcome=outcome))
        return
    ks = list(range(1, total + 1, shard["stride"]))
    for k in ks:
        reset()
        outcome, made = refresh(k)
        rec.mon("failed-refresh")
        rec.count("failed-refresh-outcome", outcome)
        case = dict(kind="failed-refresh", start=shard["start"], request=k, of=total, refresh_outcome=outcome)
        got = load_in_fresh_process(cache, shard["loads"])
        rec.mon("post-crash-load", len(got))
        if set(got.values()) != {"ok"}:
            rec.violation("after a refresh that failed on a network error a load of a bundled version fails or differs",
                          dict(case, outcomes=got), key="local-population-refused-after-refresh")
        check_cache_files(cache, rec, case)
    rec.bulk(len(ks), len(ks))
    shutil.rmtree(base, ignore_errors=True)


def run_shard(shard, rec):
    {"failed-refresh": run_failed_refresh, "crash": run_crash, "schedule": run_schedules, "locks": run_locks, "timeout-refresh": run_timeout_refresh}[shard["kind"]](shard, rec)


def replay(case, rec):
    print("C19 cases depend on process timing / crash steps; re-run ./check C19 (crash cases are deterministic per entry and step)")
    if case.get("kind") == "crash":
        run_crash(dict(kind="crash", entry=case["entry"], part=0, parts=1, loads=LOAD_Q), rec)
