"""C10 Onset/Offset/Inset bookkeeping follows the event history exactly.

Reference model: open-scope set keyed by case-folded name[/value]. Observed: TEMPORAL_TAG_ERROR issues of the real
TabularInput.validate per time point, and (invariant at a hook) the key set of OnsetValidator._onsets after every
call of validate_temporal_relations.
"""
import itertools
import zlib

from hedmon.core import env

ID = "C10"
LEVEL = "exploration"
KINDS = ["Onset", "Offset", "Inset"]
NAMES = ["A", "B", "a", "V/1", "V/2", "v/1"]
ALPHABET = [(k, n) for k in KINDS for n in NAMES]
DEFS = ["(Definition/A, (Red))", "(Definition/B, (Blue))", "(Definition/V/#, (Label/#))"]
BOUNDS = {"quick": dict(exh=2, random=600), "thorough": dict(exh=4, random=20000)}
RULE = ("event histories over {Onset,Offset,Inset} x {A,B,a,V/1,V/2,v/1}: exhaustive up to length exh, each in three "
        "layouts (one marker per row; all markers in one row; last marker Delay-shifted from an earlier row), plus seeded "
        "random histories of length <= 12 with random grouping into rows, equal-onset rows and Delay shifts. Same name "
        "twice at one time point only inside a single undelayed row (order defined by the text). non-trivial = history "
        "with >= 2 markers; distinct = distinct (history, layout)")
ASSUMPTIONS = ["open-scope model in this file (15 lines) encodes the property text",
               "equal-onset rows and delayed groups only carry pairwise distinct names, because the order in which an "
               "unstable sort leaves equal onsets is not part of the property",
               "schema 8.3.0; times are dyadic so float sums are exact"]
MIN_MONITOR_EVALS = {"issue-count-per-time-point": 300, "open-set-after-time-point": 300, "validator-reused": 150, "validated-again-after-set-cell": 100}
WATCHDOG_S = {"quick": 900, "thorough": 5400}


def EXHAUSTIVE(tier):
    return f"all histories of length <= {BOUNDS[tier]['exh']} over 18 markers, 3 layouts each"


def shards(tier, seed):
    b = BOUNDS[tier]
    out = [dict(kind="exh", prefix=[], maxlen=1)]
    if b["exh"] >= 2:
        for i in range(len(ALPHABET)):
            out.append(dict(kind="exh", prefix=[i], maxlen=b["exh"]))
    for i in range(0, b["random"], 100):
        out.append(dict(kind="random", n=100, stream=i))
    return out


def key_of(name):
    return name.casefold()


def model(time_points):
    """time_points: ordered list of lists of (kind, name). Returns (issues per time point, open set after each)."""
    open_ = set()
    counts, states = [], []
    for markers in time_points:
        used = set()
        n = 0
        for kind, name in markers:
            k = key_of(name)
            if k in used:
                n += 1
                continue
            used.add(k)
            if kind == "Onset":
                open_.add(k)
            elif k not in open_:
                n += 1
            elif kind == "Offset":
                open_.discard(k)
        counts.append(n)
        states.append(frozenset(open_))
    return counts, states


DELAY_SPELLINGS = ["Delay", "Delay", "delay", "DELAY", "Temporal-value/Delay", "dElAy",
                   "Property/Data-property/Data-value/Spatiotemporal-value/Temporal-value/delay"]


def group_text(kind, name, idx, delay=None):
    parts = [kind, f"Def/{name}"]
    if kind != "Offset" and idx % 2 == 0:
        parts.append(f"(Label/m{idx})")
    if delay:
        # the tag under any of its spellings (letter case, partial and full path)
        parts.insert(0, f"{DELAY_SPELLINGS[idx % len(DELAY_SPELLINGS)]}/{delay} s")
    return "(" + ", ".join(parts) + ")"


def build(case):
    """case['rows'] = [ {onset: float, groups: [[kind, name, delay or 0], ...]} ] in file order.
    Returns (dataframe, time_points (ordered), row -> time point index)."""
    import pandas as pd
    rows = case["rows"]
    onsets, heds = [], []
    eff = {}
    idx = 0
    prev_texts = []
    off, fac = case.get("scale") or (0.0, 1.0)       # late and finely spaced times: offset + factor * time
    for r, row in enumerate(rows):
        texts = []
        for gi, (kind, name, delay) in enumerate(row["groups"]):
            # a twin row repeats the row before it character by character
            d_text = None if not delay else repr(round(delay * fac, 9))
            texts.append(prev_texts[gi] if row.get("twin") else group_text(kind, name, idx, d_text))
            eff.setdefault(round(row["onset"] + (delay or 0), 6), []).append((r, len(texts), kind, name))
            idx += 1
        prev_texts = texts
        onsets.append(repr(round(off + float(row["onset"]) * fac, 9)))
        body = ", ".join(texts) if texts else "n/a"
        if row.get("warn") and texts:
            body += f", Red/Zzwarn{r}"               # draws a warning (extended tag), no error
        heds.append("Zzunknowntag" if row.get("noise") else body)
    if case.get("via_ref"):
        for row in rows:
            if not row.get("noise"):                       # (a row with an error is left out of the temporal checks)
                eff.setdefault(round(row["onset"], 6), [])     # the sidecar's own tag makes every row a time point
    times = sorted(eff)
    tps = [[(k, n) for (_, _, k, n) in sorted(eff[t])] for t in times]
    row_tp = {}
    for ti, t in enumerate(times):
        for (r, _, _, _) in eff[t]:
            row_tp[r] = ti
    df = pd.DataFrame({"onset": onsets, "HED": heds})
    if case.get("via_ref"):
        df["cat"] = ["x"] * len(heds)       # the markers reach the row through a sidecar entry that refers to {HED}
    if len(heds) % 2 == 1 and len(heds) > 1:
        # a frame whose index is not 0..n-1 (what is left after filtering or re-ordering another frame)
        lab = [3 * i + 7 for i in range(len(heds))]
        df.index = lab[len(lab) // 2:] + lab[:len(lab) // 2]
    return df, tps, row_tp


_hook = {"installed": False, "log": None}


def install_hook():
    if _hook["installed"]:
        return
    from hed.validator.onset_validator import OnsetValidator
    orig = OnsetValidator.validate_temporal_relations

    def wrapped(self, hed_string_obj):
        out = orig(self, hed_string_obj)
        if _hook["log"] is not None:
            _hook["log"].append(frozenset(self._onsets.keys()))
        return out
    OnsetValidator.validate_temporal_relations = wrapped
    _hook["installed"] = True


def check_case(case, rec):
    from hed.models.tabular_input import TabularInput
    from hed.models.definition_dict import DefinitionDict
    install_hook()
    schema = env.schema("8.3.0")
    dd = DefinitionDict(DEFS, schema)
    df, tps, row_tp = build(case)
    order = case.get("order")
    if order:
        # the same rows written in another order in the file: validation sorts by onset, labels follow the rows
        df = df.iloc[order].reset_index(drop=True)
        row_tp = {new: row_tp[old] for new, old in enumerate(order) if old in row_tp}
    want_counts, want_states = model(tps)
    _hook["log"] = []
    try:
        sidecar = None
        if case.get("via_ref"):
            import io
            import json
            from hed.models.sidecar import Sidecar
            sidecar = Sidecar(io.StringIO(json.dumps({"cat": {"HED": {"x": "{HED}, Blue"}}})))
            rec.count("layout-option", "markers-via-sidecar-reference")
        issues = TabularInput(df, sidecar=sidecar).validate(schema, extra_def_dicts=dd)
    except Exception as ex:  # noqa
        _hook["log"] = None
        rec.violation(f"file validation raised {type(ex).__name__}", case)
        return
    log, _hook["log"] = _hook["log"], None
    noise_rows = {r for r, row in enumerate(case["rows"]) if row.get("noise")}
    if order:
        noise_rows = {new for new, old in enumerate(order) if old in noise_rows}
    for r in noise_rows:
        if not any(i["code"] == "TAG_INVALID" and i.get("ec_row") == r + 2 for i in issues):
            rec.violation("a row holding an unknown tag is not reported on that row", dict(case, row=r))
            return
    others = sorted({i["code"] for i in issues if i["severity"] == 1 and i["code"] not in
                     ("TEMPORAL_TAG_ERROR", "TAG_EXPRESSION_REPEATED")
                     and not (i["code"] == "TAG_INVALID" and i.get("ec_row", 0) - 2 in noise_rows)})
    if others:
        rec.violation("harness: generated file draws unrelated errors", dict(case, observed=others))
        return
    got = [0] * len(tps)
    for i in issues:
        if i["code"] == "TEMPORAL_TAG_ERROR":
            r = i.get("ec_row", 0) - 2
            if r not in row_tp:
                rec.violation("TEMPORAL_TAG_ERROR labelled with a row that holds no marker", case)
                return
            got[row_tp[r]] += 1
    rec.mon("issue-count-per-time-point", len(tps))
    if got != want_counts:
        rec.violation("number of temporal issues per time point differs from the open-scope model",
                      dict(case, observed=got, model=want_counts))
    if len(df) >= 2 and zlib.crc32(repr(case["rows"]).encode()) % 4 == 0 and not case.get("via_ref"):
        # one table object validated, a marker cell replaced through set_cell, validated again: the bookkeeping follows
        # the event history the table holds now
        rec.mon("validated-again-after-set-cell")
        key2 = lambda i: (i["code"], i.get("ec_row"), i.get("severity"), i.get("message"))      # noqa
        try:
            class _Text:
                def get_as_form(self, tag_form):
                    return "Green"
            ti = TabularInput(df.copy())
            ti.validate(schema, extra_def_dicts=dd)
            ri = zlib.crc32(repr(case["rows"]).encode()) // 4 % len(df)
            ti.set_cell(ri, 1, _Text())
            edited = ti.validate(schema, extra_def_dicts=dd)
            df2 = df.copy()
            df2.iloc[ri, 1] = "Green"
            fresh = TabularInput(df2).validate(schema, extra_def_dicts=dd)
        except Exception as ex:  # noqa
            rec.violation(f"validating a table again after set_cell raised {type(ex).__name__}", case)
            edited = None
        if edited is not None and sorted(map(key2, edited), key=repr) != sorted(map(key2, fresh), key=repr):
            rec.violation("a table validated again after a cell was replaced differs from a fresh table with that cell", case)
    if case.get("before"):
        # one validator object used for the file validated just before and then for this one: every file starts with
        # no scope open, whatever the validator saw earlier
        from hed.validator.spreadsheet_validator import SpreadsheetValidator
        rec.mon("validator-reused")
        df0, _, _ = build(case["before"])
        if case["before"].get("order"):
            df0 = df0.iloc[case["before"]["order"]].reset_index(drop=True)
        key = lambda i: (i["code"], i.get("ec_row"), i.get("severity"), i.get("message"))      # noqa
        try:
            sv = SpreadsheetValidator(schema)
            sv.validate(TabularInput(df0), def_dicts=dd)
            again = sv.validate(TabularInput(df, sidecar=sidecar), def_dicts=dd)
        except Exception as ex:  # noqa
            rec.violation(f"a validator used for a second file raised {type(ex).__name__}", case)
            again = None
        if again is not None and sorted(map(key, again), key=repr) != sorted(map(key, issues), key=repr):
            rec.violation("a file's issues depend on the file its validator saw before", case)
    rec.mon("open-set-after-time-point", len(log))
    rec.count("open-set-state", "|".join(sorted(want_states[-1])) if want_states else "")
    if log != want_states:
        rec.violation("open scopes after a time point differ from the open-scope model",
                      dict(case, observed=[sorted(s) for s in log], model=[sorted(s) for s in want_states]))


def layouts(history, rng=None):
    """Deterministic layouts for an exhaustive history; history = list of (kind, name)."""
    n = len(history)
    out = []
    out.append(("single", [dict(onset=float(i + 1), groups=[[k, nm, 0]]) for i, (k, nm) in enumerate(history)]))
    out.append(("onerow", [dict(onset=1.0, groups=[[k, nm, 0] for k, nm in history])]))
    # last marker delay-shifted from a row placed first in the file (effective time after all others)
    rows = [dict(onset=0.5, groups=[[history[-1][0], history[-1][1], float(n) + 0.5]])]
    rows += [dict(onset=float(i + 1), groups=[[k, nm, 0]]) for i, (k, nm) in enumerate(history[:-1])]
    out.append(("delayed-last", rows))
    return out


def random_case(rng):
    n = rng.randrange(2, 13)
    history = [rng.choice(ALPHABET) for _ in range(n)]
    # partition into chunks = time points
    chunks, i = [], 0
    while i < n:
        ln = rng.choice([1, 1, 1, 2, 2, 3])
        chunks.append(history[i:i + ln])
        i += ln
    rows = []
    delayed_rows = []
    for ti, chunk in enumerate(chunks):
        t = float(ti + 1) * 1.5
        distinct = len({key_of(nm) for _, nm in chunk}) == len(chunk)
        mode = rng.choice(["row", "row", "multi", "delay"]) if distinct else "row"
        if mode == "row":
            rows.append(dict(onset=t, groups=[[k, nm, 0] for k, nm in chunk]))
        elif mode == "multi":
            for k, nm in chunk:
                rows.append(dict(onset=t, groups=[[k, nm, 0]]))
        else:
            src = rng.choice([0.25, 0.75, 1.0])
            src = min(src, t)
            delayed_rows.append(dict(onset=src, groups=[[k, nm, t - src] for k, nm in chunk]))
    allrows = sorted(rows + delayed_rows, key=lambda r: r["onset"])
    if rng.random() < 0.2:
        # the same row written twice (same onset, same text): every marker in it is used once more at that time
        k = rng.randrange(len(allrows))
        if allrows[k]["groups"] and not allrows[k].get("noise"):
            allrows.insert(k + 1, dict(onset=allrows[k]["onset"], groups=[list(g) for g in allrows[k]["groups"]], twin=True))
    if rng.random() < 0.3:
        # rows that fail their own checks (an unknown tag) and hold no marker: skipped by the temporal pass, they must
        # not disturb the bookkeeping of the other rows
        for _ in range(rng.randrange(1, 3)):
            t = rng.choice(allrows)["onset"] + rng.choice([-0.375, 0.375, 0.6875])
            taken = [r["onset"] for r in allrows] + [r["onset"] + (g[2] or 0) for r in allrows for g in r["groups"]]
            if t > 0 and all(abs(t - u) > 1e-6 for u in taken):
                allrows.append(dict(onset=t, groups=[], noise=True))
        allrows = sorted(allrows, key=lambda r: r["onset"])
    for r0 in allrows:
        if not r0.get("noise") and any(not g[2] for g in r0["groups"]) and rng.random() < 0.15:
            r0["warn"] = True                          # (only where a marker stays in the row: the row is a time point)
    case = dict(rows=allrows, layout="random", history=[list(h) for h in history])
    if rng.random() < 0.15:
        # (the last two: neighbouring times closer together than single precision resolves at that magnitude)
        case["scale"] = list(rng.choice([(3600.0, 0.001), (100000.0, 0.0005), (3600.0, 0.0005), (5000.0, 0.0001),
                                         (2500.0, 0.0001)]))
    if rng.random() < 0.2:
        case["via_ref"] = True
    if len({r["onset"] for r in allrows}) == len(allrows) and len(allrows) >= 2 and rng.random() < 0.35:
        order = list(range(len(allrows)))
        rng.shuffle(order)
        case["order"] = order
        case["layout"] = "random-unsorted"
    return case


def run_shard(shard, rec):
    rng = rec.rng
    if shard["kind"] == "exh":
        pre = [ALPHABET[i] for i in shard["prefix"]]
        n_eval = n_nt = 0
        start = 1 if not pre else 0
        for ln in range(start, shard["maxlen"] - len(pre) + 1):
            for tail in itertools.product(ALPHABET, repeat=ln):
                history = pre + list(tail)
                for name, rows in layouts(history):
                    case = dict(rows=rows, layout=name, history=[list(h) for h in history])
                    check_case(case, rec)
                    n_eval += 1
                    if len(history) >= 2:
                        n_nt += 1
                        if n_nt % 3000 == 1:
                            rec.sample(case)
        rec.bulk(n_eval, n_nt)
        rec.count("layout", "exhaustive", n_eval)
    else:
        rng.seed(f"c10-{shard['stream']}-{rng.random()}")
        prev = None
        for k in range(shard["n"]):
            case = random_case(rng)
            if prev is not None and k % 2 == 1:
                case["before"] = prev
            prev = {x: y for x, y in case.items() if x != "before"}
            rec.case(case["rows"])
            check_case(case, rec)
            if rng.random() < 0.02:
                rec.sample(case)
            rec.count("layout", case["layout"])


def replay(case, rec):
    check_case(case, rec)


def finalize(merged, tier, inconclusive):
    got = merged.hist.get("layout-option", {}).get("markers-via-sidecar-reference", 0)
    if got < 100:
        inconclusive.append(f"files whose markers arrive through a sidecar reference: {got} (< 100)")
