"""C04 Validation outcome does not depend on how an annotation is written (relational monitor)."""
from hedmon.core import env
from hedmon.gen import annot
from hedmon.oracle import schema_xml

ID = "C04"
LEVEL = "exploration"
RULE = ("annotations from the C01 generator (valid, and with one tree-level fault of 19 kinds incl. repeated tags/groups "
        "placed anywhere with shuffled members), nesting <= 4; each is rewritten by (a) respelling every schema-identified "
        "tag name in another suffix-path/case, (b) re-spacing around delimiters, (c) permuting siblings at every level, and "
        "combinations; the sorted list of ERROR codes must be identical. non-trivial = rewrite text differs from the "
        "original and the annotation has >= 3 tags; distinct = distinct (schema, defs, original, rewrite)")
ASSUMPTIONS = ["relational monitor: a defect affecting both executions identically is invisible here (C01 covers that)",
               "only ERROR severity is compared (capitalisation warnings legitimately depend on spelling)"]
MIN_MONITOR_EVALS = {"revalidation-stable": 3000, "codes-equal-under-rewrite": 3000, "repeat-reported-anywhere": 100}
MIN_KINDS = {"base-kind": {"mixed-toplevel": 50, "same-base-repeat": 50, "two-tag-faults": 50,
                           "def-expand-extra-member": 30, "fold-length-value": 100, "unit-case-twins": 30}, "rewrite": {"respace-text": 1000}}
TREE_KINDS = ["unknown-tag", "extension-forbidden", "extension-is-schema-term", "requires-child", "bad-unit", "bad-value",
              "repeated-tag", "repeated-group", "taggroup-outside-group", "toplevel-nested", "empty-group",
              "stray-placeholder", "undeclared-def", "def-extra-value", "def-missing-value", "altered-def-expand",
              "second-event-context", "definition-in-annotation", "bracket-char"]
VERSIONS = {"quick": ["8.3.0", "8.2.0", "score_2.0.0", "8.0.0"], "thorough": env.STANDARD + ["score_2.0.0", "score_1.1.0",
                                                                                            "testlib_3.0.0", "testlib_2.0.0"]}


def shards(tier, seed):
    per = {"quick": 500, "thorough": 7500}[tier]
    chunk = 125
    out = []
    for v in VERSIONS[tier]:
        for i in range(0, per, chunk):
            out.append(dict(version=v, n=chunk, stream=i, rewrites=6 if tier == "quick" else 12))
    return out


def codes_of(schema, dd, text, ap):
    from hed.models.hed_string import HedString
    from hed.errors.error_types import ErrorSeverity
    issues = HedString(text, schema, def_dict=dd).validate(allow_placeholders=ap)
    return sorted(i["code"] for i in issues if i.get("severity", 1) == ErrorSeverity.ERROR)


def check_case(case, rec):
    from hed.models.definition_dict import DefinitionDict
    schema = env.schema(case["schema"])
    dd = DefinitionDict(case["defs"], schema) if case["defs"] else None
    try:
        a = codes_of(schema, dd, case["text"], case["ap"])
        b = codes_of(schema, dd, case["rewrite"], case["ap"])
    except Exception as ex:  # noqa
        rec.violation(f"validate raised {type(ex).__name__}", case)
        return
    # the same object validated twice, and the original validated again after the rewrite, give the same codes
    try:
        from hed.models.hed_string import HedString
        from hed.errors.error_types import ErrorSeverity
        hs = HedString(case["text"], schema, def_dict=dd)
        twice = [sorted(i["code"] for i in hs.validate(allow_placeholders=case["ap"]) if i["severity"] == ErrorSeverity.ERROR)
                 for _ in range(2)]
    except Exception as ex:  # noqa
        rec.violation(f"validating the same object twice raised {type(ex).__name__}", case)
        return
    rec.mon("revalidation-stable")
    if twice[0] != a or twice[1] != a:
        rec.violation("validating the same annotation again gives different error codes",
                      dict(case, first=a, same_object=twice))
    rec.mon("codes-equal-under-rewrite")
    rec.count("rewrite", case["how"])
    if case.get("kind") in ("repeated-tag", "repeated-group"):
        rec.mon("repeat-reported-anywhere")
        if "TAG_EXPRESSION_REPEATED" not in a or "TAG_EXPRESSION_REPEATED" not in b:
            rec.violation("a repeated tag/group is not reported in some writing of the annotation", case,
                          key="dup-group-text-sort" if case["kind"] == "repeated-group" else None)
            return
    if a != b:
        key = None
        if set(a) ^ set(b) == {"TAG_EXPRESSION_REPEATED"} or (sorted(set(a)) == sorted(set(b)) and
                                                              a.count("TAG_EXPRESSION_REPEATED") != b.count("TAG_EXPRESSION_REPEATED")):
            key = "dup-group-text-sort"
        elif set(a) ^ set(b) == {"DEF_EXPAND_INVALID"}:
            key = "def-expand-order-sensitive"
        rec.violation("error codes change under a meaning-preserving rewrite", dict(case, codes_original=a, codes_rewrite=b), key=key)


TEXT_KINDS = ["double-comma", "leading-comma", "trailing-comma", "empty-group", "extra-open-paren", "extra-close-paren",
              "swapped-parens", "missing-comma", "tilde", "control-char"]


def respace_text(text, rng):
    """Change only the blanks next to commas and parentheses (blanks inside a tag are part of the tag)."""
    import re
    out = []
    for part in re.split(r"([,()])", text):
        if part in (",", "(", ")"):
            out.append(part)
        else:
            out.append(rng.choice(["", "", " ", "  "]) + part.strip(" ") + rng.choice(["", "", " ", "  "]))
    return "".join(out)


def mixed_toplevel(gen, items, rng):
    """A second, different top-level-group tag put into a temporal group (an invalid pairing unless it is Delay with
    a timing tag): the verdict must not depend on the order in which the members are written."""
    import copy
    items = copy.deepcopy(items)
    g = gen.temporal_group()
    if g is None:
        return None
    have = {t["node"].rsplit("/", 1)[-1].casefold() for t in g["kids"] if t["t"] == "tag" and t.get("node")}
    cands = [k for k in ("Event-context", "Delay", "Duration", "Onset", "Offset", "Inset") if k in gen.top
             and k.casefold() not in have]
    if not cands:
        return None
    k = rng.choice(cands)
    n = gen.sp[k]
    extra = annot.tag(gen.spell(n), ("/" + gen._time_value(n)) if n.takes_value else "", n.path, "temporal")
    g["kids"].insert(rng.randrange(0, len(g["kids"]) + 1), extra)
    items.insert(rng.randrange(0, len(items) + 1), g)
    return items


def same_base_repeat(gen, items, rng):
    """A group holding two tags of one node with different values (or extensions), repeated with its members written
    in another order: the repeat must be reported however the copies are written and wherever they sit."""
    import copy
    items = copy.deepcopy(items)
    if gen.values and rng.random() < 0.6:
        n = rng.choice(gen.values)
        vals = []
        for _ in range(20):
            x = gen.value_for(n)
            if x.casefold() not in [y.casefold() for y in vals]:
                vals.append(x)
            if len(vals) == 2:
                break
        role = "value"
    else:
        if not gen.ext:
            return None
        n = rng.choice(gen.ext)
        vals = rng.sample(annot.EXT_WORDS, 2) if len(annot.EXT_WORDS) >= 2 else []
        role = "ext"
    if len(vals) < 2:
        return None
    if rng.random() < 0.3:
        # a group repeated with its members in another order, beside a group of the same tags nested differently
        a, b, c = gen._plain_atom(), gen._plain_atom(), gen._plain_atom()
        cp = copy.deepcopy
        items.append(annot.group([cp(a), annot.group([cp(b), cp(c)])]))
        items.append(annot.group([cp(a), annot.group([cp(b)]), annot.group([cp(c)])]))
        items.append(annot.group([annot.group([cp(c), cp(b)]), cp(a)]))
        return items
    t1 = annot.tag(gen.spell(n), "/" + vals[0], n.path, role)
    t2 = annot.tag(gen.spell(n), "/" + vals[1], n.path, role)
    if role == "ext" and rng.random() < 0.5:
        # three siblings of one node: Word, a neighbour of it in alphabetical order, and word in another letter case;
        # the first and the third are the same tag
        w = rng.choice(["Qqmore", "Zzqext", "Vvthing"])
        items.append(annot.group([annot.tag(gen.spell(n), "/" + w, n.path, role),
                                  annot.tag(gen.spell(n), "/" + w[:-1] + chr(ord(w[-1]) + 1), n.path, role),
                                  annot.tag(gen.spell(n), "/" + w.lower(), n.path, role), gen._plain_atom()]))
        return items
    other = gen._plain_atom()
    g1 = annot.group([t1, t2, other])
    g2 = annot.group([copy.deepcopy(t2), copy.deepcopy(other), copy.deepcopy(t1)])
    if rng.random() < 0.5:
        # the two copies as members of one group, else at the top level
        items.append(annot.group([g1, gen._plain_atom(), g2]))
    else:
        items.insert(rng.randrange(0, len(items) + 1), g1)
        items.insert(rng.randrange(0, len(items) + 1), g2)
    return items


def unit_case_twins(gen, items, rng):
    """The same unit-carrying tag twice, in two different groups: once with the unit symbol as the schema writes it and
    once in another letter case (symbols are case-sensitive, so exactly one of the two is a fault)."""
    import copy
    o = gen.o
    cands = [n for n in gen.values if o.unit_classes_of(n) and
             (not o.value_classes_of(n) or "numericClass" in o.value_classes_of(n))]
    if not cands:
        return None
    n = rng.choice(cands)
    t = gen.table(n)
    pairs = [(sp, w) for sp, ds in t.exact.items() if not any(d["prefix"] for d in ds)
             for w in (sp.upper(), sp.lower(), sp.swapcase()) if w != sp and not t.accepted(w)]
    if not pairs:
        return None
    sp, w = rng.choice(pairs)
    num = rng.choice(annot.NUMERALS)
    name = gen.spell(n)
    good = annot.tag(name, f"/{num} {sp}", n.path, "value")
    bad_text = f"{name}/{num} {w}"
    bad = {"t": "tag", "name": bad_text, "suffix": "", "node": None, "role": "raw", "raw": bad_text}
    g1 = annot.group([good, gen._plain_atom()])
    g2 = annot.group([bad, gen._plain_atom()])
    items = copy.deepcopy(items)
    pair = [g1, g2]
    rng.shuffle(pair)
    for g in pair:
        items.insert(rng.randrange(0, len(items) + 1), g)
    return items


def run_shard(shard, rec):
    rng = rec.rng
    v = shard["version"]
    rng.seed(f"c04-{v}-{shard['stream']}-{rng.random()}")
    o = schema_xml.load(v)
    gen = annot.AnnotGen(o, rng)
    defs = []
    for i in range(shard["n"]):
        if i % 10 == 0:
            gen.make_defs()
            defs = gen.def_strings()
        try:
            items = gen.annotation(depth=4)
        except RuntimeError:
            rec.discard()
            continue
        kind = "valid"
        if rng.random() < 0.65:
            k = rng.choice(TREE_KINDS)
            saved = set(gen.used)
            try:
                m = annot.mutate(gen, items, k, rng)
            except RuntimeError:
                m = None
            gen.used = saved
            if m is not None and m["items"] is not None:
                items, kind = m["items"], k
        if kind in ("unknown-tag", "extension-forbidden", "bad-value", "bad-unit", "bracket-char", "requires-child") \
                and rng.random() < 0.5:
            # a second tag-level fault of another kind: which of the two comes first in the text must not matter
            k2 = rng.choice([k for k in ("unknown-tag", "bracket-char", "extension-forbidden", "bad-value") if k != kind])
            saved = set(gen.used)
            try:
                m2 = annot.mutate(gen, items, k2, rng)
            except RuntimeError:
                m2 = None
            gen.used = saved
            if m2 is not None and m2["items"] is not None:
                items, kind = m2["items"], "two-tag-faults"
                if rng.random() < 0.6:
                    # a third one whose fault is a character inside the tag itself (found tag by tag, not on the whole text)
                    import copy
                    items = copy.deepcopy(items)
                    w = rng.choice(["Zz.dotted", "Qq$word", "Re.d", "Item/Zz=ext"])
                    annot._insert_raw(items, rng, {"t": "tag", "name": w, "suffix": "", "node": None, "role": "raw", "raw": w})
        if kind == "valid" and rng.random() < 0.15:
            saved = set(gen.used)
            try:
                it3 = same_base_repeat(gen, items, rng)
            except RuntimeError:
                it3 = None
            gen.used = saved
            if it3 is not None:
                items, kind = it3, "repeated-group"
                rec.count("base-kind", "same-base-repeat")
        if kind == "valid" and rng.random() < 0.08:
            saved = set(gen.used)
            try:
                it3 = unit_case_twins(gen, items, rng)
            except RuntimeError:
                it3 = None
            gen.used = saved
            if it3 is not None:
                items, kind = it3, "unit-case-twins"
        if kind == "valid" and gen.defs and "Def-expand" in gen.sp and rng.random() < 0.12:
            # a Def-expand group with a member too many: wherever the extra member is written, the verdict is the same
            import copy as _copy
            with_content = [x for x in gen.defs if x["content"]]
            if with_content:
                d = rng.choice(with_content)
                val = gen.def_value(d) if d["takes_value"] else None
                suffix = "/" + d["name"] + ("/" + val if val else "")
                saved = set(gen.used)
                try:
                    g = annot.group([annot.tag("Def-expand", suffix, gen.sp["Def-expand"].path, "def-expand"),
                                     annot.group(gen.expansion(d, val)), gen._plain_atom()])
                    items = _copy.deepcopy(items) + [g]
                    kind = "def-expand-extra-member"
                except RuntimeError:
                    pass
                gen.used = saved
        gen83 = (o.version or "").startswith("8.3") or (o.with_standard or "").startswith("8.3")
        if gen83 and rng.random() < 0.3:
            # values and extensions with letters whose case-folded form has another length (sharp s, ligatures);
            # only where such letters are legal, so that they are not a fault of their own
            import copy as _copy
            items = _copy.deepcopy(items)
            w = rng.choice(["Stra\u00dfe", "Wei\u00df", "\ufb01ne", "Ma\u00df-3"])
            if "label" in o.by_short and rng.random() < 0.5:
                n0 = o.by_short["label"]
                items.append(annot.tag(gen.spell(n0), "/" + w, n0.path, "value"))
            elif gen.ext:
                n0 = rng.choice(gen.ext)
                items.append(annot.tag(gen.spell(n0), "/" + w, n0.path, "ext"))
            rec.count("base-kind", "fold-length-value")
        if kind == "valid" and rng.random() < 0.25:
            saved = set(gen.used)
            try:
                it3 = mixed_toplevel(gen, items, rng)
            except RuntimeError:
                it3 = None
            gen.used = saved
            if it3 is not None:
                items, kind = it3, "mixed-toplevel"
        text = annot.render(items, rng)
        ntags = sum(1 for t, _ in annot.walk(items) if t["t"] == "tag")
        ap = rng.random() < 0.5
        # text-level delimiter faults: only the blanks around commas and parentheses are rewritten
        if i % 3 == 0:
            tk = rng.choice(TEXT_KINDS)
            saved = set(gen.used)
            try:
                m = annot.mutate(gen, items, tk, rng)
            except RuntimeError:
                m = None
            gen.used = saved
            for base_text, bk in ([(m["text"], tk)] if m else []) + [(text, kind)]:
                for _r in range(3):
                    rewrite = respace_text(base_text, rng)
                    case = dict(schema=v, defs=defs, text=base_text, rewrite=rewrite, ap=ap, how="respace-text", kind=bk)
                    rec.case((v, tuple(defs), base_text, rewrite, ap), nontrivial=(rewrite != base_text and ntags >= 3))
                    check_case(case, rec)
                rec.count("text-base-kind", bk)
        for r in range(shard["rewrites"]):
            how = ["respell", "respace", "permute", "respell+permute", "all", "permute"][r % 6]
            it2 = items
            if "respell" in how or how == "all":
                it2 = annot.respell(gen, it2, rng)
            if "permute" in how or how == "all":
                it2 = annot.permute(it2, rng)
            rewrite = annot.render(it2, rng if how != "permute" or r >= 6 else None)
            case = dict(schema=v, defs=defs, text=text, rewrite=rewrite, ap=ap, how=how, kind=kind)
            rec.case((v, tuple(defs), text, rewrite, ap), nontrivial=(rewrite != text and ntags >= 3))
            check_case(case, rec)
            if rng.random() < 0.0015:
                rec.sample(case)
        rec.count("base-kind", kind)
    rec.count("schema", v, shard["n"])


def finalize(merged, tier, inconclusive):
    for hist, wants in MIN_KINDS.items():
        for k, least in wants.items():
            got = merged.hist.get(hist, {}).get(k, 0)
            if got < least:
                inconclusive.append(f"{hist} '{k}' exercised {got} times (< {least})")


def replay(case, rec):
    check_case(case, rec)
