"""C15 Search queries obey their documented logic on every annotation.

Reference evaluator for *terms only* (schema-path terms from the generator's tree, i.e. the XML oracle); every
composite operator is judged by algebraic relations between real executions, never by a second implementation.
"""
import random

from hedmon.core import env
from hedmon.gen import annot
from hedmon.oracle import schema_xml

ID = "C15"
LEVEL = "exploration"
RULE = ("annotations of depth <= 4 from the C01 generator over 8.3.0 (no temporal groups) x queries generated from the "
        "grammar {term, \"term\", term*, ?, ??, ???, &&, ||, ~, ( ), [ ], { }, {:}, {: opt}} to depth 4, terms drawn from the "
        "annotation's own path terms / short forms and from unrelated schema nodes; plus queries with one grouping symbol "
        "deleted and random token soups. non-trivial = (annotation, query) pair whose query has >= 1 operator; distinct = "
        "distinct (annotation text, query text)")
ASSUMPTIONS = ["term model: bare term = case-folded member of the tag's schema path; quoted = whole short form; star = "
               "short-form prefix (written from the property text)",
               "composite semantics are judged only through OR/AND algebra, reorder-invariance, repeatability, non-mutation"]
MIN_MONITOR_EVALS = {"term-model": 1500, "or-is-disjunction": 2000, "and-implies-both": 2000, "and-symmetric": 2000,
                     "and-associative": 1000, "and-regrouping": 500, "group-form-model": 2000, "or-symmetric-in-context": 2000, "and-needs-distinct-tags": 100, "reorder-invariant": 2000,
                     "repeatable-nonmutating": 2000, "compile-or-valueerror": 2000, "unbalanced-rejected": 500,
                     "batch-agrees": 200, "expanded-object-searches-like-fresh": 1000}


def shards(tier, seed):
    n = {"quick": 300, "thorough": 5000}[tier]
    q = {"quick": 60, "thorough": 400}[tier]
    return [dict(n=25, stream=i, queries=q) for i in range(0, n, 25)]


# ------------------------------------------------------------ reference term model over the generator's tree
def tags_of(items):
    return [t for t, _ in annot.walk(items) if t["t"] == "tag"]


def path_terms(t):
    """Case-folded terms of the tag's schema path; a tag the schema does not know has none."""
    return [p.casefold() for p in t["node"].split("/")] if t.get("node") else []


def short_form(t, oracle):
    if not t.get("node"):
        return t["raw"].casefold()          # a tag the schema does not know: its short form is what was written
    node = oracle.by_path[t["node"].casefold()]
    return (node.name + t["suffix"]).casefold()


def term_matches(items, kind, text, oracle):
    text = text.casefold()
    for t in tags_of(items):
        if kind == "bare":
            if text in path_terms(t):
                return True
        elif kind == "quoted":
            if short_form(t, oracle) == text:
                return True
        else:
            if short_form(t, oracle).startswith(text):
                return True
    return False


def matching_tags(items, kind, text, oracle):
    text = text.casefold()
    out = []
    for t in tags_of(items):
        if kind == "bare" and text in path_terms(t):
            out.append(id(t))
        elif kind == "quoted" and short_form(t, oracle) == text:
            out.append(id(t))
        elif kind == "star" and short_form(t, oracle).startswith(text):
            out.append(id(t))
    return out


def tag_matches(t, kind, text, oracle):
    text = text.casefold()
    if kind == "bare":
        return text in path_terms(t)
    if kind == "quoted":
        return short_form(t, oracle) == text
    return short_form(t, oracle).startswith(text)


def all_groups(items):
    for it in items:
        if it["t"] == "group":
            yield it
            yield from all_groups(it["kids"])


def desc_tags(g):
    return [t for t, _ in annot.walk(g["kids"]) if t["t"] == "tag"]


def group_models(items, A, B, C, oracle):
    """Documented meaning of the group-scoped forms for simple terms A, B (and optional C):
    [A && B]  a parenthesised group containing both at any level (two different tags)
    {A && B}  a parenthesised group with both directly at the same level
    {A && B:} ... and nothing else in that group
    {A && B: C} ... and optionally one more tag matching C, nothing else"""
    def pair(tags):
        return any(tag_matches(a, *A, oracle) and tag_matches(b, *B, oracle) for a in tags for b in tags if a is not b)
    out = {"desc": False, "same": False, "only": False, "opt": False}
    for g in all_groups(items):
        direct = [k for k in g["kids"] if k["t"] == "tag"]
        if pair(desc_tags(g)):
            out["desc"] = True
        if pair(direct):
            out["same"] = True
            if len(g["kids"]) == 2 and len(direct) == 2:
                out["only"] = True
                out["opt"] = True
        if len(g["kids"]) == 3 and len(direct) == 3:
            for c in direct:
                rest = [x for x in direct if x is not c]
                if tag_matches(c, *C, oracle) and pair(rest):
                    out["opt"] = True
    return out


# ------------------------------------------------------------ query grammar
WORD_OK = set("_-abcdefghijklmnopqrstuvwxyzABCDEFGHIJKLMNOPQRSTUVWXYZ0123456789/.^#")


def term_pool(items, oracle, rng):
    pool = []
    for t in tags_of(items):
        if not t.get("node"):
            # the written levels of a tag the schema does not know are not terms of any schema path
            for comp in t["raw"].split("/"):
                pool.append(("bare", comp))
            pool.append(("quoted", t["raw"]))
            pool.append(("star", t["raw"][:rng.randrange(2, max(3, len(t["raw"])))]))
            continue
        parts = t["node"].split("/")
        pool.append(("bare", rng.choice(parts)))
        sf = oracle.by_path[t["node"].casefold()].name + t["suffix"]
        if all(c in WORD_OK for c in sf) and "/" not in sf:
            pool.append(("quoted", sf))
        elif all(c in WORD_OK for c in sf):
            pool.append(("quoted", sf))
        name = oracle.by_path[t["node"].casefold()].name
        pool.append(("star", name[:rng.randrange(2, max(3, len(name)))]))
        # a value or extension is not a term of the tag's schema path
        for comp in (t.get("suffix") or "").split("/"):
            if comp and all(c in WORD_OK for c in comp) and "#" not in comp:
                pool.append(("bare", comp))
    for _ in range(4):
        n = rng.choice(oracle.nodes)
        pool.append(("bare", n.name))
    return [p for p in pool if all(c in WORD_OK for c in p[1]) and p[1]]


def render_term(kind, text):
    if kind == "bare":
        return text
    if kind == "quoted":
        return '"' + text + '"'
    return text + "*"


def gen_query(rng, pool, depth, allow_wild=True, allow_neg=True):
    r = rng.random()
    if depth <= 0 or r < 0.3:
        if allow_wild and rng.random() < 0.12:
            return rng.choice(["?", "??", "???"])
        return render_term(*rng.choice(pool))
    a = lambda **kw: gen_query(rng, pool, depth - 1, **{**dict(allow_wild=allow_wild, allow_neg=allow_neg), **kw})   # noqa
    if r < 0.45:
        return f"{a()} && {a()}"
    if r < 0.6:
        return f"{a()} || {a()}"
    if r < 0.68 and allow_neg:
        return f"~({a(allow_wild=False)})"
    if r < 0.76:
        return f"({a()})"
    if r < 0.84:
        return f"[{a()}]"
    if r < 0.9:
        return "{" + a() + "}"
    if r < 0.95:
        return "{" + a(allow_neg=False) + ":}"
    return "{" + a(allow_neg=False) + ": " + a(allow_neg=False) + "}"


def compile_q(q):
    from hed.models.query_handler import QueryHandler
    return QueryHandler(q)


def snapshot(h):
    from hedmon.props.c02 import plain_shape
    from hedmon.props.c09 import tree_invariant
    return (str(h), repr(plain_shape(h)), tree_invariant(h))


def check_case(case, rec):
    """case: dict(text, perm_text, items (tree), terms [(kind,text)], queries [str], triples [[a,b,c]], bad [str])"""
    from hed.models.hed_string import HedString
    from hed.models.query_service import search_hed_objs
    schema = env.schema("8.3.0")
    oracle = schema_xml.load("8.3.0")
    h = HedString(case["text"], schema)
    hp = HedString(case["perm_text"], schema)
    items = case["items"]
    before = snapshot(h)

    def run(q, target=h):
        return bool(compile_q(q).search(target))
    # (1) term model
    for kind, text in case["terms"]:
        q = render_term(kind, text)
        rec.mon("term-model")
        try:
            got = run(q)
        except Exception as ex:  # noqa
            rec.violation(f"searching a simple term raised {type(ex).__name__}", dict(text=case["text"], query=q))
            continue
        want = term_matches(items, kind, text, oracle)
        if got != want:
            rec.violation(f"{kind} term match differs from the term model", dict(text=case["text"], query=q, model=want))
    # (2)-(3) algebra on generated queries
    results = {}
    handlers = []
    for q in case["queries"]:
        rec.mon("compile-or-valueerror")
        try:
            qh = compile_q(q)
        except ValueError:
            rec.count("generated-query-rejected", "ValueError")
            continue
        except Exception as ex:  # noqa
            rec.violation(f"compiling a query raised {type(ex).__name__} instead of ValueError", dict(query=q))
            continue
        try:
            r1 = bool(qh.search(h))
            r2 = bool(qh.search(h))
            r3 = bool(compile_q(q).search(hp))
        except Exception as ex:  # noqa
            rec.violation(f"search raised {type(ex).__name__}", dict(text=case["text"], query=q))
            continue
        results[q] = r1
        handlers.append((q, qh))
        rec.mon("repeatable-nonmutating")
        if r1 != r2:
            rec.violation("repeated search gives a different answer", dict(text=case["text"], query=q))
        rec.mon("reorder-invariant")
        if r1 != r3:
            rec.violation("match result changes when siblings of the annotation are reordered",
                          dict(text=case["text"], reordered=case["perm_text"], query=q))
    after = snapshot(h)
    if before != after:
        rec.violation("searching altered the annotation (text, tree or parent pointers)", dict(text=case["text"],
                                                                                             queries=case["queries"][:5]))
    qs = [q for q in results]
    rng = random.Random(case["text"])
    for _ in range(min(len(qs), 40)):
        a, b = rng.choice(qs), rng.choice(qs)
        try:
            ab_or = run(f"({a}) || ({b})")
            ab = run(f"({a}) && ({b})")
            ba = run(f"({b}) && ({a})")
        except ValueError:
            continue
        except Exception as ex:  # noqa
            rec.violation(f"composite search raised {type(ex).__name__}", dict(text=case["text"], a=a, b=b))
            continue
        rec.mon("or-is-disjunction")
        if ab_or != (results[a] or results[b]):
            rec.violation("'A || B' is not (A or B)", dict(text=case["text"], a=a, b=b))
        rec.mon("and-implies-both")
        if ab and not (results[a] and results[b]):
            rec.violation("'A && B' matches although A or B does not", dict(text=case["text"], a=a, b=b))
        rec.mon("and-symmetric")
        if ab != ba:
            rec.violation("'A && B' differs from 'B && A'", dict(text=case["text"], a=a, b=b))
        c = rng.choice(qs)
        try:
            l = run(f"(({a}) && ({b})) && ({c})")
            r = run(f"({a}) && (({b}) && ({c}))")
        except ValueError:
            continue
        except Exception as ex:  # noqa
            rec.violation(f"composite search raised {type(ex).__name__}", dict(text=case["text"], a=a, b=b, c=c))
            continue
        rec.mon("and-associative")
        if l != r:
            rec.violation("'(A && B) && C' differs from 'A && (B && C)'", dict(text=case["text"], a=a, b=b, c=c))
    # 'A || B' is 'B || A' wherever it stands: under &&, inside [ ] and { }, with plain and with negated operands
    simple0 = [render_term(*t) for t in case["terms"]]
    if len(simple0) >= 2:
        for _ in range(8):
            x, y, z = (rng.choice(simple0) for _ in range(3))
            if rng.random() < 0.5:
                x, y = f"~{x}", f"~{y}"
            elif rng.random() < 0.3:
                x = f"~{x}"
            ctx = rng.choice(["({0} || {1}) && {2}", "[{0} || {1}]", "{{{0} || {1}}}", "{2} && ({0} || {1})",
                              "[({0} || {1}) && {2}]"])
            qa, qb = ctx.format(x, y, z), ctx.format(y, x, z)
            try:
                ra, rb = run(qa), run(qb)
            except ValueError:
                continue
            except Exception as ex:  # noqa
                rec.violation(f"search raised {type(ex).__name__}", dict(text=case["text"], query=qa))
                continue
            rec.mon("or-symmetric-in-context")
            if ra != rb:
                rec.violation("swapping the operands of '||' inside a larger query changes the answer",
                              dict(text=case["text"], a=qa, b=qb))
    # regrouping: every parenthesisation (and order) of t1 && t2 && t3 && t4 gives the same answer
    simple = [render_term(*t) for t in case["terms"]]
    if len(simple) >= 2:
        for _ in range(6):
            t = [rng.choice(simple) for _ in range(4)]
            forms = [f"{t[0]} && {t[1]} && {t[2]} && {t[3]}", f"({t[0]} && {t[1]}) && ({t[2]} && {t[3]})",
                     f"{t[0]} && ({t[1]} && ({t[2]} && {t[3]}))", f"(({t[0]} && {t[1]}) && {t[2]}) && {t[3]}",
                     f"({t[2]} && {t[3]}) && ({t[1]} && {t[0]})"]
            try:
                got = [run(q) for q in forms]
            except Exception as ex:  # noqa
                rec.violation(f"search raised {type(ex).__name__}", dict(text=case["text"], query=forms[0]))
                continue
            rec.mon("and-regrouping")
            if len(set(got)) != 1:
                rec.violation("regrouping or reordering a conjunction of terms changes the answer",
                              dict(text=case["text"], a=f"{t[0]} && {t[1]}", b=f"{t[2]} && {t[3]}", forms=forms, answers=got))
    # group-scoped forms on simple terms against the documented meaning
    tl = [tuple(t) for t in case["terms"]]
    if len(tl) >= 2:
        for _ in range(8):
            A, B, C = rng.choice(tl), rng.choice(tl), rng.choice(tl)
            ra, rb, rc = render_term(*A), render_term(*B), render_term(*C)
            want = group_models(items, A, B, C, oracle)
            forms = {"desc": f"[{ra} && {rb}]", "same": "{" + f"{ra} && {rb}" + "}", "only": "{" + f"{ra} && {rb}:" + "}",
                     "opt": "{" + f"{ra} && {rb}: {rc}" + "}"}
            for k, q in forms.items():
                try:
                    got = run(q)
                except Exception as ex:  # noqa
                    rec.violation(f"search raised {type(ex).__name__}", dict(text=case["text"], query=q))
                    continue
                rec.mon("group-form-model")
                rec.count("group-form", f"{k}={got}")
                if got != want[k]:
                    rec.violation(f"group-scoped form ({k}) differs from its documented meaning",
                                  dict(text=case["text"], query=q, model=want[k]))
    # distinct tags: two simple terms whose only matches are one and the same tag
    terms = case["terms"]
    for i in range(len(terms)):
        for j in range(i + 1, len(terms)):
            ma = matching_tags(items, *terms[i], oracle)
            mb = matching_tags(items, *terms[j], oracle)
            if len(ma) == 1 and ma == mb:
                rec.mon("and-needs-distinct-tags")
                q = f"{render_term(*terms[i])} && {render_term(*terms[j])}"
                try:
                    if run(q):
                        rec.violation("'A && B' matches through one single tag", dict(text=case["text"], query=q))
                except Exception as ex:  # noqa
                    rec.violation(f"search raised {type(ex).__name__}", dict(text=case["text"], query=q))
    # (4) unbalanced grouping symbols are rejected; arbitrary text compiles or raises ValueError
    for q in case["bad"]:
        rec.mon("unbalanced-rejected")
        try:
            compile_q(q)
        except ValueError:
            continue
        except Exception as ex:  # noqa
            rec.violation(f"compiling an unbalanced query raised {type(ex).__name__} instead of ValueError", dict(query=q))
            continue
        rec.violation("query with an unbalanced grouping symbol compiles", dict(query=q))
    for q in case["soup"]:
        rec.mon("compile-or-valueerror")
        unbalanced = any(q.count(a) != q.count(b) for a, b in ("()", "[]", "{}")) and '"' not in q
        try:
            qh = compile_q(q)
            qh.search(h)
        except ValueError:
            continue
        except Exception as ex:  # noqa
            rec.violation(f"arbitrary query text raised {type(ex).__name__} instead of ValueError", dict(query=q, text=case["text"]))
            continue
        if unbalanced:
            # more opening than closing symbols of one kind (or the reverse), however they are strung together
            rec.mon("unbalanced-soup-rejected")
            rec.violation("query text with unequal numbers of opening and closing grouping symbols compiles", dict(query=q),
                          key="double-bracket-read-as-a-term" if ("[[" in q or "]]" in q) else None)
    # batch interface
    if handlers:
        rec.mon("batch-agrees")
        names = [f"q{k}" for k in range(len(handlers))]
        try:
            df = search_hed_objs([h, None, hp], [qh for _, qh in handlers], names)
            for k, (q, _) in enumerate(handlers):
                if bool(df.at[0, names[k]]) != results[q] or df.at[1, names[k]] != 0 or bool(df.at[2, names[k]]) != results[q]:
                    rec.violation("search_hed_objs disagrees with individual searches", dict(text=case["text"], query=q))
                    break
        except Exception as ex:  # noqa
            rec.violation(f"search_hed_objs raised {type(ex).__name__}", dict(text=case["text"]))


EXPAND_DEFS = ["(Definition/MyDef, (Red, Square))", "(Definition/Vdef/#, (Label/#, Blue))"]
EXPAND_QUERIES = ["{Def-expand/MyDef}", "{Def-expand/MyDef && ???}", "[Def-expand/MyDef && Red]", "{Def-expand/MyDef && Event}",
                  "{Def-expand/MyDef && Event:}", "{Event && {Def-expand/MyDef}}", "Def-expand/MyDef", '"Def-expand/MyDef"',
                  "Def-exp*", "[Def-expand/Vdef/3 && Blue]", "{Def-expand/Vdef/3 && ?}", "{Red && Square}", "[Red && Label*]",
                  "{Def-expand/MyDef: Event}", "[Def-expand/MyDef]", "Def-expand", "Def", "~Def-expand && Event",
                  "{Def-expand && Red}", "[Def && Square]"]


def check_expanded(case, rec):
    """An annotation whose Def tags were expanded in place is searched like the same annotation parsed from its
    expanded text (they are equal annotations). case: dict(kind='expanded', text, queries)"""
    from hed.models.hed_string import HedString
    from hed.models.definition_dict import DefinitionDict
    schema = env.schema("8.3.0")
    dd = DefinitionDict(EXPAND_DEFS, schema)
    try:
        h = HedString(case["text"], schema, dd)
        h.expand_defs()
        fresh = HedString(str(h), schema, dd)
    except Exception as ex:  # noqa
        rec.violation(f"expanding definitions before a search raised {type(ex).__name__}", case)
        return
    for q in case["queries"]:
        try:
            qh = compile_q(q)
        except ValueError:
            continue
        rec.mon("expanded-object-searches-like-fresh")
        try:
            a, b = bool(qh.search(h)), bool(qh.search(fresh))
        except Exception as ex:  # noqa
            rec.violation(f"searching an expanded annotation raised {type(ex).__name__}", dict(case, query=q))
            return
        if a != b:
            rec.violation("an annotation expanded in place is searched differently from the same annotation parsed afresh",
                          dict(case, query=q))
            return


GROUPING = "()[]{}"


def delete_one_grouping(q, rng):
    pos = [i for i, c in enumerate(q) if c in GROUPING]
    if not pos:
        return None
    i = rng.choice(pos)
    return q[:i] + q[i + 1:]


def run_shard(shard, rec):
    rng = rec.rng
    rng.seed(f"c15-{shard['stream']}-{rng.random()}")
    oracle = schema_xml.load("8.3.0")
    gen = annot.AnnotGen(oracle, rng)
    for k in range(shard["n"]):
        try:
            items = gen.annotation(depth=4, temporal=False, size=rng.randrange(1, 5))
        except RuntimeError:
            rec.discard()
            continue
        # searching does not require a valid annotation: repeat some tags / groups among their siblings
        if rng.random() < 0.4:
            import copy as _copy
            for _ in range(rng.randrange(1, 4)):
                parents = [items] + [g["kids"] for g, _p in annot.walk(items) if g["t"] == "group"]
                sibs = rng.choice(parents)
                if sibs:
                    sibs.insert(rng.randrange(0, len(sibs) + 1), _copy.deepcopy(rng.choice(sibs)))
        if rng.random() < 0.3:
            # ... nor a known one: tags the schema cannot place (their levels may be schema words)
            for _ in range(rng.randrange(1, 3)):
                w = rng.choice(["Notatag", "Foo/Bar", "Foo/Green", "Zzq/Event/Item", "Qqword/Red"])
                parents = [items] + [g["kids"] for g, _p in annot.walk(items) if g["t"] == "group"]
                sibs = rng.choice(parents)
                sibs.insert(rng.randrange(0, len(sibs) + 1),
                            {"t": "tag", "name": w, "suffix": "", "node": None, "role": "raw", "raw": w})
            rec.count("annotation-kind", "with-unidentified-tag")
        text = annot.render(items, rng)
        perm_text = annot.render(annot.permute(items, rng), rng)
        pool = term_pool(items, oracle, rng)
        terms = rng.sample(pool, min(len(pool), 10))
        queries = [gen_query(rng, pool, rng.randrange(1, 5)) for _ in range(shard["queries"])]
        bad = []
        for q in rng.sample(queries, min(20, len(queries))):
            try:
                compile_q(q)
            except Exception:  # noqa  (only well-formed queries are used as the base of an unbalanced one)
                continue
            b = delete_one_grouping(q, rng)
            if b is not None:
                bad.append(b)
        toks = ["&&", "||", "~", "(", ")", "[", "]", "{", "}", ":", "?", "??", "???", ",", "@", '"', "*", "Red", "event", " "]
        soup = ["".join(rng.choice(toks) for _ in range(rng.randrange(0, 9))) for _ in range(20)]
        case = dict(text=text, perm_text=perm_text, items=items, terms=[list(t) for t in terms], queries=queries, bad=bad,
                    soup=soup)
        for q in queries:
            rec.case((text, q), nontrivial=any(op in q for op in ("&&", "||", "~", "[", "{", "(")))
        check_case(case, rec)
        if k % 2 == 0:
            # the same annotation with Def tags put in, expanded in place and searched
            import copy as _copy
            it3 = _copy.deepcopy(items)
            for w in rng.sample(["Def/MyDef", "Def/Vdef/3", "Def/MyDef", "Event"], rng.randrange(1, 4)):
                parents = [it3] + [g["kids"] for g, _p in annot.walk(it3) if g["t"] == "group"]
                sibs = rng.choice(parents)
                sibs.insert(rng.randrange(0, len(sibs) + 1), {"t": "tag", "name": w, "suffix": "", "node": None, "role": "raw", "raw": w})
            ecase = dict(kind="expanded", text=annot.render(it3, rng), queries=EXPAND_QUERIES + queries[:20])
            rec.case((ecase["text"], "expanded"), True)
            check_expanded(ecase, rec)
        if rng.random() < 0.05:
            rec.sample(dict(text=text, queries=queries[:6], unbalanced=bad[:3]))


def replay(case, rec):
    """Replay of a violation: the recorded fields are re-evaluated as a minimal case."""
    if case.get("kind") == "expanded":
        check_expanded(dict(case, queries=[case["query"]] if "query" in case else case["queries"]), rec)
        return
    oracle = schema_xml.load("8.3.0")
    text = case.get("text", "Red")
    from hedmon.oracle import hedparse  # noqa
    qs = [case[k] for k in ("query", "a", "b", "c") if k in case]
    from hed.models.hed_string import HedString
    schema = env.schema("8.3.0")
    h = HedString(text, schema)
    try:
        res = {q: bool(compile_q(q).search(h)) for q in qs}
    except Exception as ex:  # noqa
        rec.violation(f"replay: {type(ex).__name__}", case)
        return
    if "a" in case and "b" in case:
        a, b = case["a"], case["b"]
        run = lambda q: bool(compile_q(q).search(h))   # noqa
        if run(f"({a}) || ({b})") != (res[a] or res[b]):
            rec.violation("'A || B' is not (A or B)", case)
        if run(f"({a}) && ({b})") != run(f"({b}) && ({a})"):
            rec.violation("'A && B' differs from 'B && A'", case)
        if run(f"({a}) && ({b})") and not (res[a] and res[b]):
            rec.violation("'A && B' matches although A or B does not", case)
        if "c" in case:
            c = case["c"]
            if run(f"(({a}) && ({b})) && ({c})") != run(f"({a}) && (({b}) && ({c}))"):
                rec.violation("'(A && B) && C' differs from 'A && (B && C)'", case)
    elif "reordered" in case:
        if bool(compile_q(case["query"]).search(HedString(case["reordered"], schema))) != res[case["query"]]:
            rec.violation("match result changes when siblings of the annotation are reordered", case)
    elif "query" in case and "text" not in case:
        try:
            compile_q(case["query"])
            rec.violation("query with an unbalanced grouping symbol compiles", case)
        except ValueError:
            pass
    print("replay results:", res)


def finalize(merged, tier, inconclusive):
    got = merged.hist.get("annotation-kind", {}).get("with-unidentified-tag", 0)
    if got < 40:
        inconclusive.append(f"annotations holding a tag the schema does not know: {got} (< 40)")
