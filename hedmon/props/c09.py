"""C09 Definitions expand to their declared content and shrink back losslessly.

Monitors: acceptance predicate (reference model) on candidate definitions; model expansion compared as
canonical trees; idempotence / inverse relations; tree invariants (acyclic, parent pointers) after every step of
random histories over {expand, shrink, copy, validate, str, long}; Def-expand validation; column-wise variants.
"""
import copy

from hedmon.core import env
from hedmon.gen import annot
from hedmon.oracle import schema_xml, hedparse

ID = "C09"
LEVEL = "exploration"
RULE = ("definition sets (3-6 definitions: plain, '/#' with and without units, nested content) and candidate definitions "
        "covering every rejection rule; annotations from the C01 generator using the definitions (Def and written "
        "Def-expand groups at depth <= 3, temporal groups); histories of <= 8 operations over {expand, shrink, copy, "
        "validate, str, long} on one object with tree invariants checked after every step; permuted / altered Def-expand "
        "groups; column-wise expand/shrink/process_def_expands. non-trivial = annotation with >= 1 definition use or a "
        "candidate definition; distinct = distinct (definitions, text, history)")
ASSUMPTIONS = ["model of the acceptance rules and of expansion is written from the property text (this file)",
               "canonical comparison: unordered nested tuples of case-folded short-form tag text"]
MIN_MONITOR_EVALS = {"candidate-verdict": 500, "expansion-equals-model": 500, "expand-idempotent": 500,
                     "shrink-inverts-expand": 500, "history-step-invariant": 2000, "def-expand-validation": 300,
                     "columnwise-agrees": 100, "table-object-agrees": 50, "columnwise-long-form-agrees": 50, "duplicate-ignored": 50, "def-expand-unplugged-content": 20}
VERSIONS = {"quick": ["8.3.0", "8.2.0", "score_2.0.0"], "thorough": ["8.3.0", "8.2.0", "8.1.0", "8.0.0", "score_2.0.0",
                                                                     "score_1.1.0", "testlib_3.0.0"]}


def shards(tier, seed):
    per = {"quick": 200, "thorough": 4500}[tier]
    out = []
    for v in VERSIONS[tier]:
        for i in range(0, per, 100):
            out.append(dict(version=v, sets=10, stream=i, histories=5 if tier == "quick" else 10))
    return out


# ------------------------------------------------------------------ tree invariant (the hook)
def tree_invariant(h):
    """Finite acyclic walk; every child's _parent is its container. Returns None or a description."""
    from hed.models.hed_tag import HedTag
    seen = set()
    stack = [h]
    n = 0
    while stack:
        g = stack.pop()
        if id(g) in seen:
            return "cycle: a group is reachable twice"
        seen.add(id(g))
        n += 1
        if n > 5000:
            return "walk does not terminate"
        for c in g.children:
            if c._parent is not g:
                return "child._parent is not its container"
            if isinstance(c, HedTag):
                if id(c) in seen:
                    return "a tag object appears twice in the tree"
                seen.add(id(c))
            else:
                stack.append(c)
    return None


# ------------------------------------------------------------------ canonical forms
def short_canon_of_text(text, oracle):
    """Canonical unordered tree of a text, tags reduced to case-folded short form via the XML oracle."""
    def key(t):
        name, slash, rest = t, "", ""
        # longest prefix that is a schema path spelling
        parts = t.split("/")
        for k in range(len(parts), 0, -1):
            cand = "/".join(parts[:k]).casefold()
            n = oracle.by_path.get(cand) or _by_suffix(oracle, cand)
            if n is not None:
                rest = "/".join(parts[k:])
                return (n.name + ("/" + rest if rest else "")).casefold()
        return t.casefold()
    return hedparse.canon_text(text, key)


_suffix_cache = {}


def _by_suffix(oracle, cand):
    m = _suffix_cache.get(id(oracle))
    if m is None:
        m = {}
        for n in oracle.nodes:
            for sp in n.suffix_paths():
                m.setdefault(sp.casefold(), n)
        _suffix_cache[id(oracle)] = m
    return m.get(cand)


def model_texts(gen, items):
    """(original, fully expanded, fully shrunk) texts from the generator's tree."""
    defs = {d["name"]: d for d in gen.defs}

    def expand(lst):
        out = []
        for it in lst:
            if it["t"] == "group":
                out.append(annot.group(expand(it["kids"]), it["role"]))
            elif it["role"] == "def":
                d = defs[it["def"]]
                out.append(annot.group([annot.tag("Def-expand", it["suffix"])] +
                                       ([annot.group(gen.expansion(d, it["val"]))] if d["content"] else [])))
            else:
                out.append(it)
        return out

    def shrink(lst):
        out = []
        for it in lst:
            if it["t"] == "group" and it["role"] == "def-expand-group":
                t = [k for k in it["kids"] if k["t"] == "tag"][0]
                out.append(annot.tag("Def", t["suffix"]))
            elif it["t"] == "group":
                out.append(annot.group(shrink(it["kids"]), it["role"]))
            else:
                out.append(it)
        return out
    return annot.render(items), annot.render(expand(items)), annot.render(shrink(items))


# ------------------------------------------------------------------ candidate definitions
def candidates(gen, rng):
    """Yield (text, accept: bool, why) candidate definition strings for the reference predicate."""
    o = gen.o
    p = lambda: gen._plain_atom()["name"]      # noqa
    v = rng.choice(gen.values)
    vn = v.name
    counter = [0]

    def nm():
        counter[0] += 1
        return rng.choice(["Cand", "Xdef", "My-def", "D_1"]) + f"{rng.randrange(1000)}x{counter[0]}"
    gen.used = set()
    out = [
        (f"(Definition/{nm()}, ({p()}, {p()}))", True, "plain"),
        (f"(Definition/{nm()})", True, "no content group"),
        (f"(Definition/{nm()}, ({p()}, ({p()}, ({p()}))))", True, "nested content"),
        (f"(Definition/{nm()}/#, ({vn}/#, {p()}))", True, "placeholder"),
        (f"(Definition/{nm()}/#, ({p()}, ({vn}/#)))", True, "nested placeholder"),
        (f"(({p()}), Definition/{nm()})", True, "definition tag after the group"),
        (f"(Definition/{nm()}, ({p()}), ({p()}))", False, "two content groups"),
        (f"(Definition/{nm()}, {p()}, ({p()}))", False, "extra tag beside Definition"),
        (f"(Definition/{nm()}/Sub, ({p()}))", False, "slash in name"),
        (f"(Definition/{nm()}/Sub/#, ({vn}/#))", False, "slash in name with placeholder"),
        (f"(Definition/Na#me{rng.randrange(99)}, ({p()}))", False, "# in name"),
        (f"(Definition/{nm()}, (Def/Other, {p()}))", False, "Def inside"),
        (f"(Definition/{nm()}, ((Def-expand/Other, ({p()})), {p()}))", False, "Def-expand inside"),
        (f"(Definition/{nm()}, ({p()}, (Definition/Inner, ({p()}))))", False, "Definition inside"),
        (f"(Definition/{nm()}/#, ({p()}, {p()}))", False, "/# name without placeholder"),
        (f"(Definition/{nm()}/#, ({vn}/#, {rng.choice(gen.values).name}/#))", False, "two placeholders"),
        (f"(Definition/{nm()}, ({vn}/#, {p()}))", False, "placeholder without /# name"),
        (f"(Definition/{nm()}, ({vn}/#, ({rng.choice(gen.values).name}/#, {p()})))", False, "two placeholders without /# name"),
        (f"(Definition/{nm()}/#, ({vn}/#, {p()}, ({vn}/#)))", False, "the same placeholder twice"),
        (f"(Definition/{nm()}/#, ({p()}/#))", False, "placeholder on a tag that takes no value"),
        (f"(Definition/{nm()}/#)", False, "/# name without content"),
        (f"(Definition/{nm()}#/#, ({vn}/#, {p()}))", False, "# at the end of the name before /#"),
        (f"(Definition/{nm()}/#/#, ({vn}/#))", False, "/# twice at the end of the name"),
        (f"(Definition/{nm()}##/#, ({vn}/#))", False, "## at the end of the name before /#"),
    ]
    two = [x for x in gen.values if x.path != v.path]
    rng.shuffle(out)
    return out


def check_candidates(schema, cands, rec, label):
    from hed.models.definition_dict import DefinitionDict
    from hed.models.hed_string import HedString
    from hed.errors.error_types import ErrorSeverity
    dd = DefinitionDict()
    first_contents = {}
    for text, accept, why in cands:
        case = dict(kind="candidate", schema=label, text=text, accept=accept, why=why)
        rec.case(("cand", label, text))
        rec.mon("candidate-verdict")
        rec.count("candidate-rule", why)
        before = set(dd.defs)
        try:
            issues = dd.check_for_definitions(HedString(text, schema))
        except Exception as ex:  # noqa
            rec.violation(f"check_for_definitions raised {type(ex).__name__}", case)
            continue
        added = set(dd.defs) - before
        if accept:
            if issues or len(added) != 1:
                rec.violation(f"rule-conforming definition ({why}) not accepted", case)
            else:
                name = next(iter(added))
                if dd.defs[name].takes_value != ("/#" in text.split(",")[0].split(")")[0]):
                    rec.violation("accepted definition has the wrong takes_value flag", case)
                first_contents[name] = str(dd.defs[name].contents)
        else:
            if added:
                rec.violation(f"definition violating a rule ({why}) was accepted", case,
                              key="placeholders-without-pound-name" if why == "two placeholders without /# name" else None)
            elif not any(i["code"] == "DEFINITION_INVALID" and i["severity"] == ErrorSeverity.ERROR for i in issues):
                rec.violation(f"rejected definition ({why}) reported without DEFINITION_INVALID", case)
    # the same verdict through the other ways of handing definitions to a dictionary
    for text, accept, why in cands:
        for form in ("str", "list", "dict-of-dict"):
            rec.mon("candidate-verdict-other-form")
            case = dict(kind="candidate", schema=label, text=text, accept=accept, why=why, form=form)
            try:
                if form == "dict-of-dict":
                    d2 = DefinitionDict(DefinitionDict([text], schema), schema)
                else:
                    d2 = DefinitionDict(text if form == "str" else [text], schema)
            except Exception as ex:  # noqa
                rec.violation(f"DefinitionDict({form}) raised {type(ex).__name__}", case)
                continue
            got = len(d2.defs) == 1 and (form == "dict-of-dict" or not d2.issues)
            if got != accept:
                rec.violation("a definition is accepted through one way of building the dictionary and not through another", case,
                              key="placeholders-without-pound-name" if why == "two placeholders without /# name" else None)
    # two dictionaries defining one name, merged: the first stays, the clash is reported
    for name in list(first_contents)[:2]:
        disp = dd.defs[name].name
        rec.mon("merge-keeps-first")
        case = dict(kind="merge", schema=label, name=disp)
        try:
            d1 = DefinitionDict([f"(Definition/{disp}, (Red))"], schema)
            d2 = DefinitionDict([f"(Definition/{disp.swapcase()}, (Blue, Green))"], schema)
            for how in ("constructor", "add_definitions"):
                if how == "constructor":
                    m = DefinitionDict([d1, d2], schema)
                else:
                    m = DefinitionDict(d1, schema)
                    m.add_definitions(d2, schema)
                kept = m.defs[name.casefold()]
                if str(kept.contents).casefold() != "(red)":
                    rec.violation("merging two dictionaries lets a later definition replace the one accepted first",
                                  dict(case, how=how))
                if not m.issues:
                    rec.violation("merging two dictionaries with a clashing name reports nothing", dict(case, how=how))
        except Exception as ex:  # noqa
            rec.violation(f"merging dictionaries raised {type(ex).__name__}", case)
    # duplicates (case-insensitive) are reported and ignored
    for name in list(first_contents)[:3]:
        disp = dd.defs[name].name
        dup = f"(Definition/{disp.upper() if disp.upper() != disp else disp.lower()}, (Zzq-never))"
        rec.mon("duplicate-ignored")
        case = dict(kind="duplicate", schema=label, text=dup)
        try:
            issues = dd.check_for_definitions(HedString(dup.replace("Zzq-never", "Event"), schema))
        except Exception as ex:  # noqa
            rec.violation(f"check_for_definitions raised {type(ex).__name__} on a duplicate", case)
            continue
        if not any(i["code"] == "DEFINITION_INVALID" for i in issues):
            rec.violation("duplicate definition name not reported", case)
        if str(dd.defs[name].contents) != first_contents[name]:
            rec.violation("duplicate definition replaced the first one", case)


# ------------------------------------------------------------------ one annotation, all monitors
OPS = ["expand", "shrink", "copy", "validate", "str", "long", "expand", "shrink"]


def check_annotation(case, rec):
    """case: dict(schema, defs, text, exp, shr, has_written_expand, histories:[[ops]])"""
    from hed.models.hed_string import HedString
    from hed.models.definition_dict import DefinitionDict
    from hed.errors.error_types import ErrorSeverity
    o = schema_xml.load(case["schema"])
    schema = env.schema(case["schema"])
    dd = DefinitionDict(case["defs"], schema)
    if len(dd.defs) != len(case["defs"]):
        rec.violation("generated definition set not accepted", case)
        return
    c_org = short_canon_of_text(case["text"], o)
    c_exp = short_canon_of_text(case["exp"], o)
    c_shr = short_canon_of_text(case["shr"], o)

    def canon_h(h):
        return short_canon_of_text(str(h), o)

    # (2) expansion equals the model; (3) idempotent; shrink inverts
    try:
        h = HedString(case["text"], schema, dd)
        h.expand_defs()
        bad = tree_invariant(h)
        rec.mon("expansion-equals-model")
        if bad:
            rec.violation("after expand_defs: " + bad, case)
        elif canon_h(h) != c_exp:
            rec.violation("expanded annotation differs from the model expansion", case)
        h.expand_defs()
        rec.mon("expand-idempotent")
        bad = tree_invariant(h)
        if bad:
            rec.violation("second expand_defs corrupts the tree: " + bad, case, key="double-expand-cycle")
        elif canon_h(h) != c_exp:
            rec.violation("expanding twice differs from expanding once", case, key="double-expand-cycle")
        else:
            h.shrink_defs()
            rec.mon("shrink-inverts-expand")
            bad = tree_invariant(h)
            if bad:
                rec.violation("after shrink_defs: " + bad, case)
            elif canon_h(h) != c_shr:
                rec.violation("shrinking the expanded annotation does not restore the original", case)
    except RecursionError:
        rec.violation("expand/shrink sequence ends in RecursionError (cyclic tree)", case, key="double-expand-cycle")
    except Exception as ex:  # noqa
        rec.violation(f"expand/shrink raised {type(ex).__name__}", case)

    # (4) histories with invariants after each step
    for ops in case["histories"]:
        h = HedString(case["text"], schema, dd)
        state = "org"
        expect = {"org": c_org, "exp": c_exp, "shr": c_shr}
        for k, op in enumerate(ops):
            hcase = dict(case, histories=[ops[:k + 1]])
            try:
                if op == "expand":
                    h.expand_defs()
                    state = "exp"
                elif op == "shrink":
                    h.shrink_defs()
                    state = "shr"
                elif op == "copy":
                    h2 = h.copy()
                    bad = tree_invariant(h)
                    if bad:
                        rec.violation("copy() damaged the source tree: " + bad, hcase)
                    h = h2
                elif op == "validate":
                    issues = h.validate(allow_placeholders=False)
                    errs = sorted({i["code"] for i in issues if i["severity"] == ErrorSeverity.ERROR})
                    if errs:
                        key = "expanded-placeholder-org-text" if (errs == ["CHARACTER_INVALID"] and state == "exp") else None
                        rec.violation(f"valid annotation in state '{state}' draws {errs}", hcase, key=key)
                elif op == "long":
                    h.get_as_long()
                elif op == "str":
                    str(h)
                rec.mon("history-step-invariant")
                bad = tree_invariant(h)
                if bad:
                    key = "double-expand-cycle" if ops[:k + 1].count("expand") >= 2 else None
                    rec.violation(f"history step '{op}': {bad}", hcase, key=key)
                    break
                if canon_h(h) != expect[state]:
                    key = "double-expand-cycle" if ops[:k + 1].count("expand") >= 2 else None
                    rec.violation(f"history step '{op}': annotation differs from the model state '{state}'", hcase, key=key)
                    break
                # the long and the short form of the object, whatever was read or done before, name the same tags
                rec.mon("history-forms-agree")
                if HedString(h.get_as_short(), schema).get_as_long() != h.get_as_long() or \
                        HedString(h.get_as_long(), schema).get_as_short() != h.get_as_short():
                    rec.violation(f"history step '{op}': long and short form of the object disagree", hcase)
                    break
            except RecursionError:
                rec.violation(f"history step '{op}' ends in RecursionError", hcase, key="double-expand-cycle")
                break
            except Exception as ex:  # noqa
                rec.violation(f"history step '{op}' raised {type(ex).__name__}", hcase)
                break


def check_def_expand_validation(case, rec):
    """case: dict(schema, defs, text, expect) ; expect 'valid' or 'DEF_EXPAND_INVALID'"""
    from hed.models.hed_string import HedString
    from hed.models.definition_dict import DefinitionDict
    from hed.errors.error_types import ErrorSeverity
    schema = env.schema(case["schema"])
    dd = DefinitionDict(case["defs"], schema)
    rec.mon("def-expand-validation")
    # in a data row (no placeholders) and in a sidecar entry (placeholders allowed) the verdict on the content is the same
    for allow in (False, True):
        try:
            issues = HedString(case["text"], schema, dd).validate(allow_placeholders=allow)
        except Exception as ex:  # noqa
            rec.violation(f"validate raised {type(ex).__name__}", case)
            return
        errs = {i["code"] for i in issues if i["severity"] == ErrorSeverity.ERROR}
        where = " (placeholders allowed)" if allow else ""
        if case["expect"] == "valid" and errs:
            rec.violation(f"Def-expand group equal to the expansion up to order is rejected{where}: {sorted(errs)}", case,
                          key="def-expand-order-sensitive" if errs == {"DEF_EXPAND_INVALID"} else None)
        if case["expect"] != "valid" and "DEF_EXPAND_INVALID" not in errs:
            rec.violation(f"altered Def-expand content accepted{where}", case,
                          key="def-expand-unplugged-content" if "#" in case["text"] else None)
        if "#" in case["text"]:
            rec.mon("def-expand-unplugged-content")


def check_columnwise(case, rec):
    """case: dict(schema, defs, texts)"""
    import pandas as pd
    from hed.models import df_util
    from hed.models.hed_string import HedString
    from hed.models.definition_dict import DefinitionDict
    schema = env.schema(case["schema"])
    o = schema_xml.load(case["schema"])
    dd = DefinitionDict(case["defs"], schema)
    texts = case["texts"]
    try:
        per_exp = [str(HedString(t, schema, dd).expand_defs()) for t in texts]
        per_shr = [str(HedString(t, schema, dd).shrink_defs()) for t in per_exp]
    except RecursionError:
        return
    cn = lambda lst: [short_canon_of_text(x, o) for x in lst]     # noqa  (column-wise code leaves rows without Def untouched)
    per_exp_c, per_shr_c = cn(per_exp), cn(per_shr)
    for form in ("series", "frame"):
        rec.mon("columnwise-agrees")
        try:
            if form == "series":
                s = pd.Series(list(texts))
                df_util.expand_defs(s, schema, dd)
                got_e = list(s)
                df_util.shrink_defs(s, schema)
                got_s = list(s)
            else:
                df = pd.DataFrame({"a": list(texts), "b": list(reversed(texts))})
                df_util.expand_defs(df, schema, dd, ["a", "b"])
                got_e = list(df["a"])
                if cn(list(df["b"])) != list(reversed(per_exp_c)):
                    rec.violation("df_util.expand_defs (frame, 2nd column) disagrees with per-string expansion", case)
                df_util.shrink_defs(df, schema, ["a", "b"])
                got_s = list(df["a"])
        except Exception as ex:  # noqa
            rec.violation(f"column-wise expand/shrink ({form}) raised {type(ex).__name__}", case)
            continue
        if cn(got_e) != per_exp_c:
            rec.violation(f"df_util.expand_defs ({form}) disagrees with per-string expansion", case)
        if cn(got_s) != per_shr_c:
            rec.violation(f"df_util.shrink_defs ({form}) disagrees with per-string shrinking", case,
                          key="shrink-defs-frame-noop" if form == "frame" else None)
    # rows written in long form (the Def tag under its full path): the same rows are expanded and shrunk
    rec.mon("columnwise-long-form-agrees")
    try:
        long_texts = [HedString(t, schema, dd).get_as_long() for t in texts]
        s2 = pd.Series(list(long_texts))
        df_util.expand_defs(s2, schema, dd)
        got_e = list(s2)
        df_util.shrink_defs(s2, schema)
        got_s = list(s2)
        if cn(got_e) != per_exp_c:
            rec.violation("df_util.expand_defs on rows written in long form disagrees with per-string expansion", case)
        elif cn(got_s) != per_shr_c:
            rec.violation("df_util.shrink_defs on rows written in long form disagrees with per-string shrinking", case)
    except Exception as ex:  # noqa
        rec.violation(f"column-wise expand/shrink of long-form rows raised {type(ex).__name__}", case)
    # the same through the table object's own methods (they work on its HED columns, in place)
    rec.mon("table-object-agrees")
    try:
        from hed.models.tabular_input import TabularInput
        ti = TabularInput(pd.DataFrame({"onset": [str(i + 1) for i in range(len(texts))], "HED": list(texts)}))
        ti.expand_defs(schema, dd)
        got_e = list(ti.dataframe["HED"])
        ti.shrink_defs(schema)
        got_s = list(ti.dataframe["HED"])
    except Exception as ex:  # noqa
        rec.violation(f"expand_defs / shrink_defs of a table object raised {type(ex).__name__}", case,
                      key="table-object-defs-import" if isinstance(ex, ImportError) else None)
        got_e = None
    if got_e is not None:
        if cn(got_e) != per_exp_c:
            rec.violation("expand_defs of a table object disagrees with per-string expansion", case)
        if cn(got_s) != per_shr_c:
            rec.violation("shrink_defs of a table object disagrees with per-string shrinking", case)
    # gathering definitions back from the expanded strings
    try:
        gathered, ambiguous, errors = df_util.process_def_expands(per_exp, schema, known_defs=case["defs"])
    except Exception as ex:  # noqa
        rec.violation(f"process_def_expands raised {type(ex).__name__}", case)
        return
    rec.mon("gather-known")
    if errors or ambiguous:
        rec.violation("process_def_expands reports errors/ambiguity for exact expansions of known definitions", case)


def run_shard(shard, rec):
    rng = rec.rng
    v = shard["version"]
    rng.seed(f"c09-{v}-{shard['stream']}-{rng.random()}")
    o = schema_xml.load(v)
    schema = env.schema(v)
    gen = annot.AnnotGen(o, rng)
    for si in range(shard["sets"]):
        gen.make_defs(rng.randrange(3, 7), allow_empty=True)
        defs = gen.def_strings()
        check_candidates(schema, candidates(gen, rng), rec, v)
        texts_for_columns = []
        for ai in range(10):
            try:
                items = gen.annotation(depth=3)
                # make sure definitions are used: add 1-3 uses at random places
                for _ in range(rng.randrange(1, 4)):
                    use = gen.def_use(expand=rng.random() < 0.25)
                    if use is None:
                        continue
                    groups = [g for g, _ in annot.walk(items) if g["t"] == "group" and g["role"] == "group"]
                    if groups and rng.random() < 0.6:
                        rng.choice(groups)["kids"].append(use)
                    else:
                        items.append(use)
                # the same Def/Name[/v] once more, in a group of its own (not a sibling of the first: no repeat error)
                uses = [t for t, _ in annot.walk(items) if t["t"] == "tag" and t["role"] == "def"]
                if uses and rng.random() < 0.4:
                    import copy as _copy
                    again = _copy.deepcopy(rng.choice(uses))
                    if rng.random() < 0.5:
                        again["name"] = again["name"].swapcase()
                    items.append(annot.group([again, gen._plain_atom()]))
                    rec.count("annotation-feature", "same-def-twice")
            except RuntimeError:
                rec.discard()
                continue
            text, exp, shr = model_texts(gen, items)
            text_r = annot.render(items, rng)
            histories = [[rng.choice(OPS) for _ in range(rng.randrange(2, 9))] for _ in range(shard["histories"])]
            histories[0] = ["expand", "expand", "str"][: 3]
            uses = sum(1 for t, _ in annot.walk(items) if t["t"] == "tag" and t["role"] in ("def", "def-expand"))
            case = dict(kind="annotation", schema=v, defs=defs, text=text_r, exp=exp, shr=shr, histories=histories)
            rec.case((v, tuple(defs), text_r, str(histories)), nontrivial=uses >= 1)
            check_annotation(case, rec)
            texts_for_columns.append(text_r)
            if rng.random() < 0.02:
                rec.sample(dict(case, histories=histories[:2]))
            # (5) permuted expansion validates, altered does not
            d = rng.choice(gen.defs)
            val = gen.def_value(d) if d["takes_value"] else None
            suffix = "/" + d["name"] + ("/" + val if val else "")
            good = annot.permute([annot.group([annot.tag("Def-expand", suffix)] +
                                              ([annot.group(gen.expansion(d, val))] if d["content"] else []))], rng)
            gcase = dict(kind="def-expand", schema=v, defs=defs, text=annot.render(good, rng), expect="valid")
            rec.case((v, tuple(defs), gcase["text"]))
            check_def_expand_validation(gcase, rec)
            saved = set(gen.used)
            gen.allow_unplug = True
            m = annot.mutate(gen, [gen._plain_atom()], "altered-def-expand", rng)
            gen.used = saved
            if m:
                bcase = dict(kind="def-expand", schema=v, defs=defs, text=m["text"], expect="DEF_EXPAND_INVALID")
                rec.case((v, tuple(defs), m["text"]))
                check_def_expand_validation(bcase, rec)
        if texts_for_columns:
            ccase = dict(kind="columns", schema=v, defs=defs, texts=texts_for_columns)
            rec.case((v, tuple(defs), tuple(texts_for_columns)))
            check_columnwise(ccase, rec)
    rec.count("schema", v, shard["sets"])


def replay(case, rec):
    k = case.get("kind")
    if k == "annotation":
        check_annotation(case, rec)
    elif k == "def-expand":
        check_def_expand_validation(case, rec)
    elif k == "columns":
        check_columnwise(case, rec)
    elif k in ("candidate", "duplicate"):
        check_candidates(env.schema(case["schema"]), [(case["text"], case.get("accept", True), case.get("why", ""))], rec,
                         case["schema"])
