"""C02 Parsing is total and the parse tree mirrors the source text.

Monitor: reference tokenizer (oracle/hedparse.py) compared with the tree hed builds, for every string of
an exhaustively enumerated space, plus token sequences of real schema tags, plus random Unicode strings.
"""
import itertools
import zlib

from hedmon.core import env
from hedmon.oracle import hedparse

ID = "C02"
LEVEL = "exploration"
ALPHA = ["a", " ", ",", "(", ")", "/"]
TOKENS = ["Red", "Sensory-event", "Event", "Item/Object", " ", ",", "(", ")", "/"]
BOUNDS = {"quick": dict(alpha_len=7, token_len=5, random=20000),
          "thorough": dict(alpha_len=9, token_len=6, random=500000)}
RULE = ("exhaustive: every string over {a,' ',',','(',')','/'} up to alpha_len and every sequence of "
        "{Red,Sensory-event,Event,Item/Object,' ',',','(',')','/'} up to token_len; plus seeded random Unicode "
        "strings (all planes, controls, no surrogates) with delimiters mixed in. Each string is parsed by hed and by the "
        "reference tokenizer; non-trivial = contains at least one delimiter or blank and one tag character; "
        "distinct = distinct text")
ASSUMPTIONS = ["reference tokenizer hedmon/oracle/hedparse.py (40 lines) encodes the property text",
               "schema 8.3.0 is used to resolve tag forms for the short/long re-parse relation"]
MIN_MONITOR_EVALS = {"tree-vs-reference": 1000, "unbalanced-empty-and-reported": 1000, "unbalanced-reported-in-sidecar": 200, "unbalanced-part-of-combined": 200, "reparse-forms": 1000,
                     "no-exception": 1000}
WATCHDOG_S = {"quick": 900, "thorough": 5400}


def EXHAUSTIVE(tier):
    b = BOUNDS[tier]
    return f"alphabet strings of length <= {b['alpha_len']}; token sequences of length <= {b['token_len']}"


def shards(tier, seed):
    b = BOUNDS[tier]
    out = [dict(kind="alpha", prefix="", maxlen=2)]            # lengths 0..2
    plen = 2 if b["alpha_len"] <= 7 else 3
    for p in itertools.product(ALPHA, repeat=plen):
        out.append(dict(kind="alpha", prefix="".join(p), maxlen=b["alpha_len"]))
    if plen == 3:
        out[0]["maxlen"] = 3
    out.append(dict(kind="token", prefix=[], maxlen=1))
    for p in itertools.product(range(len(TOKENS)), repeat=2):
        out.append(dict(kind="token", prefix=list(p), maxlen=b["token_len"]))
    for part in range(4):
        out.append(dict(kind="foldcase", part=part, parts=4))
    n = b["random"]
    per = 5000
    for i in range(0, n, per):
        out.append(dict(kind="random", n=min(per, n - i), stream=i))
    return out


_schema = None


def _sch():
    global _schema
    if _schema is None:
        _schema = env.schema("8.3.0")
    return _schema


def shape(group):
    """Shape of hed's tree with spans: tag -> ("T", s, e), group -> ("G", s, e, kids)."""
    from hed.models.hed_tag import HedTag
    out = []
    for c in group.children:
        if isinstance(c, HedTag):
            out.append(("T", c.span[0], c.span[1]))
        else:
            out.append(("G", c.span[0], c.span[1], shape(c)))
    return out


def plain_shape(group):
    from hed.models.hed_tag import HedTag
    return [("t", c.short_tag.casefold()) if isinstance(c, HedTag) else ("g", plain_shape(c)) for c in group.children]


def check_text(text, rec, classify=True):
    """All C02 monitors on one text. Returns nothing; records violations."""
    from hed.models.hed_string import HedString
    from hed.models.hed_tag import HedTag
    schema = _sch()
    case = {"text": text}
    try:
        h = HedString(text, schema)
    except Exception as ex:                                      # noqa
        rec.violation(f"constructor raised {type(ex).__name__}", case)
        return
    rec.mon("no-exception")
    ref, ok = hedparse.parse(text)
    if ok:
        rec.mon("tree-vs-reference")
        got = shape(h)
        if got != ref:
            rec.violation("tree differs from reference tokenizer (tag count / span / nesting)", case)
            return
        for t in h.get_all_tags():
            if t.org_tag != text[t.span[0]:t.span[1]]:
                rec.violation("org_tag is not the source slice at its span", case)
                return
        for g in h.get_all_groups():
            if g is h:
                continue
            s, e = g.span
            if text[s] != "(" or text[e - 1] != ")" or g.get_original_hed_string() != text[s:e]:
                rec.violation("group span does not run from '(' to the matching ')'", case)
                return
        # printing and re-parsing
        want = plain_shape(h)
        for form, printed in (("str", None), ("short", None), ("long", None), ("original", None)):
            try:
                if form == "str":
                    printed = str(h)
                elif form == "short":
                    printed = h.get_as_short()
                elif form == "long":
                    printed = h.get_as_long()
                else:
                    printed = h.get_as_original()
                h2 = HedString(printed, schema)
            except Exception as ex:                              # noqa
                rec.violation(f"printing/re-parsing in {form} form raised {type(ex).__name__}", case)
                continue
            rec.mon("reparse-forms")
            if not (h2 == h) or plain_shape(h2) != want:
                rec.violation(f"re-parsing the {form} form does not give an equal tree", case)
    else:
        rec.mon("unbalanced-empty-and-reported")
        if h.children:
            rec.violation("unbalanced parentheses but tree not empty", case)
        try:
            issues = h.validate()
        except Exception as ex:                                  # noqa
            rec.violation(f"validate of unbalanced text raised {type(ex).__name__}", case)
            return
        if not any(i.get("code") == "PARENTHESES_MISMATCH" for i in issues):
            key = None
            if text.count("(") == text.count(")"):
                key = "paren-order-unchecked"
            rec.violation("unbalanced parentheses but no PARENTHESES_MISMATCH issue", case, key=key)
        # the same text as one part of an annotation combined from parts (what a table row is): nothing is lost
        if zlib.crc32(text.encode("utf-8", "replace")) % 4 == 1:
            rec.mon("unbalanced-part-of-combined")
            try:
                parts = [HedString("Red", schema), HedString(text, schema), HedString("Blue", schema)]
                comb = HedString.from_hed_strings(parts)
                cissues = comb.validate()
                ctext = comb.get_original_hed_string()
            except Exception as ex:                              # noqa
                rec.violation(f"combining / validating parts with an unbalanced one raised {type(ex).__name__}", case)
                return
            if ctext != "Red," + text + ",Blue":
                rec.violation("the text of an annotation combined from parts is not the parts joined by commas", case)
            elif not any(i.get("code") == "PARENTHESES_MISMATCH" for i in cissues):
                rec.violation("unbalanced part of a combined annotation but no PARENTHESES_MISMATCH issue", case,
                              key="paren-order-unchecked" if text.count("(") == text.count(")") else None)
        # the same text as a sidecar entry: sidecar validation reports the mismatch too
        if not (set(text) & set("{}#")) and text.strip() and zlib.crc32(text.encode("utf-8", "replace")) % 4 == 0:
            import io
            import json
            from hed.models.sidecar import Sidecar
            rec.mon("unbalanced-reported-in-sidecar")
            try:
                sc = Sidecar(io.StringIO(json.dumps({"kind": {"HED": {"a": text, "b": "Red"}}})))
                sissues = sc.validate(schema)
            except Exception as ex:                              # noqa
                rec.violation(f"sidecar validation of unbalanced text raised {type(ex).__name__}", case)
                return
            if not any(i.get("code") == "PARENTHESES_MISMATCH" for i in sissues):
                rec.violation("unbalanced parentheses in a sidecar entry but no PARENTHESES_MISMATCH issue", case,
                              key="paren-order-unchecked" if text.count("(") == text.count(")") else None)


def nontrivial(text):
    has_delim = any(c in ",() " for c in text)
    has_tag = any(c not in ",() " for c in text)
    return has_delim and has_tag


def run_shard(shard, rec):
    kind = shard["kind"]
    if kind == "alpha":
        pre = shard["prefix"]
        n_eval = n_nontriv = 0
        if not pre:
            lens = range(0, shard["maxlen"] + 1)
        else:
            lens = range(0, shard["maxlen"] - len(pre) + 1)
        for ln in lens:
            for tail in itertools.product(ALPHA, repeat=ln):
                text = pre + "".join(tail)
                check_text(text, rec)
                n_eval += 1
                if nontrivial(text):
                    n_nontriv += 1
                    if n_nontriv % 40000 == 1:
                        rec.sample(text)
        rec.bulk(n_eval, n_nontriv)
        rec.count("kind", "alpha", n_eval)
    elif kind == "token":
        pre = shard["prefix"]
        n_eval = n_nontriv = 0
        lens = range(0, shard["maxlen"] - len(pre) + 1)
        seen = set()
        for ln in lens:
            for tail in itertools.product(range(len(TOKENS)), repeat=ln):
                text = "".join(TOKENS[i] for i in pre + list(tail))
                check_text(text, rec)
                rec.evaluations += 1
                if nontrivial(text):
                    rec.distinct.add(hash(text))
                    n_nontriv += 1
                    if n_nontriv % 20000 == 1:
                        rec.sample(text)
        rec.count("kind", "token", rec.evaluations)
    elif kind == "foldcase":
        # spellings of real tags with characters whose case-folded form is longer than the character itself
        # (ß -> ss, ligatures -> two letters): the text as written and its folded form differ in length
        from hedmon.oracle import schema_xml
        subs = [("ss", "\u00df"), ("fi", "\ufb01"), ("fl", "\ufb02"), ("ff", "\ufb00"), ("st", "\ufb06")]
        o = schema_xml.load("8.3.0")
        n_eval = 0
        for node in o.nodes[shard["part"]::shard["parts"]]:
            for a, b2 in subs:
                if a not in node.name.lower():
                    continue
                i = node.name.lower().index(a)
                v = node.name[:i] + b2 + node.name[i + 2:]
                for text in (v, v + "/x", v + "/3 s", v + "/Zzext/More", f"({v}/x, Red)", f"Blue, ({v}, (Green))",
                             node.parent.name + "/" + v + "/y" if node.parent else v + "/#"):
                    check_text(text, rec)
                    rec.case(text, True)
                    n_eval += 1
        rec.count("kind", "foldcase", n_eval)
    else:
        rng = rec.rng
        rng.seed(f"c02-{shard['stream']}-{rec.rng.random()}")
        pools = [lambda: chr(rng.randrange(0x20, 0x7f)), lambda: chr(rng.randrange(0, 0x20)),
                 lambda: chr(rng.randrange(0x80, 0x800)), lambda: chr(rng.randrange(0x800, 0xd800)),
                 lambda: chr(rng.randrange(0xe000, 0x10000)), lambda: chr(rng.randrange(0x10000, 0x110000)),
                 lambda: rng.choice(",() /#{}:~[]\t\n  　"),
                 lambda: rng.choice(["Red", "Event", "Def/X", "Duration/3 s", "Item/Object", "(", ")", ","])]
        weights = [4, 1, 2, 2, 1, 2, 8, 4]
        for _ in range(shard["n"]):
            ln = rng.choice([1, 2, 3, 5, 8, 13, 21, 40])
            text = "".join(rng.choices(pools, weights)[0]() for _ in range(ln))
            if rng.random() < 0.4:
                # force balance so the tree monitors see unicode too
                text = text.replace("(", "").replace(")", "")
                k = rng.randrange(0, 3)
                for _ in range(k):
                    a = rng.randrange(0, len(text) + 1)
                    b = rng.randrange(a, len(text) + 1)
                    text = text[:a] + "(" + text[a:b] + ")" + text[b:]
            check_text(text, rec)
            rec.case(text, nontrivial(text))
            if rng.random() < 0.002:
                rec.sample(text)
        rec.count("kind", "random", shard["n"])


def replay(case, rec):
    check_text(case["text"], rec)
