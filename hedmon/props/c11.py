"""C11 Units are accepted and converted exactly as the schema defines them.

Oracle: unit table built from the schema XML (oracle/units.py). Monitors: validation verdict of the real
HedString.validate and the real HedTag.value_as_default_unit for every (tag, unit, modifier, spelling) x numerals.
"""
import math
import zlib
import random

from hedmon.core import env
from hedmon.oracle import schema_xml, units

ID = "C11"
LEVEL = "exploration"
RULE = ("every value-taking node with unit classes of every bundled schema x every unit of its classes x every permitted "
        "SI prefix x spellings (names: lower/Capitalised/UPPER/mixed, singular and regular plural; symbols exact) x numeric "
        "literals; plus oracle-rejected spellings (wrong-case symbols, name prefix on symbol, symbol prefix on name, prefix "
        "on non-SI unit, unknown words) and bare numbers. non-trivial = case has a unit; distinct = distinct (schema, text)")
ASSUMPTIONS = ["unit oracle hedmon/oracle/units.py (plural table hand-written; irregular/unclear plurals are not tested)",
               "conversion-factor literals are read with '^' == 'e', as the schema data itself does",
               "spellings with two derivations of different factor (e.g. 'uV' in 8.3.0) are excluded from the factor check"]
MIN_MONITOR_EVALS = {"accepted-validates": 2000, "rejected-flagged": 300, "unit-first-rejected": 100, "text-before-unit-rejected": 100, "shared-validator-agrees": 1000, "bare-number": 50, "conversion": 1500,
                     "linearity": 500, "unknown-unit-none": 300}
NUMERALS_Q = ["3", "0.5", "2.5E-2", "-7", "+4", "12.", ".5", "1e3", "0", "0.0", "-0"]
UNIT_CODES = {"UNITS_INVALID", "VALUE_INVALID"}


def shards(tier, seed):
    out = []
    for v in env.BUNDLED:
        o = schema_xml.load(v)
        nodes = [n.path for n in o.nodes if o.unit_classes_of(n)]
        if tier == "quick" and v not in ("8.3.0", "score_2.0.0"):
            # one representative tag per distinct unit-class set for the other schemas
            seen, keep = set(), []
            for p in nodes:
                k = tuple(o.unit_classes_of(o.by_path[p.casefold()]))
                if k not in seen:
                    seen.add(k)
                    keep.append(p)
            nodes = keep
        for i in range(0, len(nodes), 4):
            out.append(dict(version=v, nodes=nodes[i:i + 4], full=(tier == "thorough")))
        if v in ("8.3.0", "score_1.1.0"):
            # the same under a namespace prefix
            for i in range(0, len(nodes), 8):
                out.append(dict(version=v, ns="sc:", nodes=nodes[i:i + 2], full=(tier == "thorough")))
    return out


def _spellings(rng, d, full):
    base = (d["mod"] or "") + d["base"]
    if d["symbol"]:
        return [base]
    outs = [base, base.capitalize(), base.upper(), "".join(c.upper() if rng.random() < 0.5 else c for c in base)]
    if full:
        return list(dict.fromkeys(outs))
    return list(dict.fromkeys([outs[0], rng.choice(outs[1:])]))


def make_text(name, num, unit, prefix_unit):
    return f"{name}/{unit} {num}" if prefix_unit else f"{name}/{num} {unit}"


_validators = {}


def check_case(case, rec):
    """case: dict(schema, node, kind in accepted|rejected|bare, num, unit, prefix)"""
    from hed.models.hed_string import HedString
    from hed.models.hed_tag import HedTag
    from hed.errors.error_types import ErrorSeverity
    v = case["schema"]
    o = schema_xml.load(v)
    ns = case.get("ns", "")
    schema = env.schema(ns + v)
    node = o.by_path[case["node"].casefold()]
    nm = ns + node.name                          # the tag as written, with the schema's prefix if it has one
    plain = o.is_plain(node) and not (schema_xml.SPECIAL_NODE_ATTRS & set(node.hash_child.attrs))
    table = units.table_for(o, node)
    kind, num, unit = case["kind"], case["num"], case.get("unit")
    text = f"{nm}/{num}" if kind == "bare" else make_text(nm, num, unit, case.get("prefix", False))
    try:
        issues = HedString(text, schema).validate()
    except Exception as ex:  # noqa
        rec.violation(f"validate raised {type(ex).__name__} on a unit-carrying tag", case)
        return
    errs = [i for i in issues if i.get("severity", 1) == ErrorSeverity.ERROR]
    ucodes = sorted({i["code"] for i in errs if i["code"] in UNIT_CODES})
    blank_name = kind != "bare" and " " in unit

    def key_for_blank():
        return "unit-name-with-blank" if blank_name else None

    if kind in ("accepted", "bare") and zlib.crc32(text.encode()) % 4 == 0 and "creation-date" in o.by_short:
        # one validator object that was first shown the same value text under a tag of another value class
        from hed.validator.hed_validator import HedValidator
        rec.mon("shared-validator-agrees")
        try:
            hv = _validators.setdefault(ns + v, HedValidator(schema))
            value_text = text.split("/", 1)[1]
            for first in (f"{ns}Creation-date/{value_text}", f"{ns}Creation-date/{num}", f"{ns}Label/{num}"):
                hv.validate(HedString(first, schema), False)
            shared = sorted({i["code"] for i in hv.validate(HedString(text, schema), False)
                             if i.get("severity", 1) == ErrorSeverity.ERROR})
        except Exception as ex:  # noqa
            rec.violation(f"a validator used for several annotations raised {type(ex).__name__}", case)
            shared = None
        if shared is not None and shared != sorted({i["code"] for i in errs}):
            rec.violation("the verdict on a unit-carrying tag depends on what its validator was shown before", case)
    if kind == "accepted":
        rec.mon("accepted-validates")
        if ucodes:
            rec.violation(f"oracle-accepted unit spelling reported as {'/'.join(ucodes)}", case, key=key_for_blank())
        elif plain and errs:
            rec.violation("accepted unit on a plain tag draws another error: " + "/".join(sorted({i['code'] for i in errs})), case)
        # the same value handed to the tag through a definition's placeholder is judged the same way
        if plain and not ucodes and not errs and not case.get("prefix") and "definition" in o.by_short and (hash(text) % 7 == 0):
            from hed.models.definition_dict import DefinitionDict
            rec.mon("value-through-def")
            try:
                dd = DefinitionDict([f"({ns}Definition/Unitdef/#, ({nm}/#))"], schema)
                di = HedString(f"{ns}Def/Unitdef/{num} {unit}", schema, dd).validate()
                derr = sorted({i["code"] for i in di if i.get("severity", 1) == ErrorSeverity.ERROR})
            except Exception as ex:  # noqa
                rec.violation(f"validating a unit value through a Def raised {type(ex).__name__}", case)
                derr = []
            if dd.issues or derr:
                rec.violation("an accepted number-with-unit is rejected when it reaches the tag through a Def", dict(case, observed=derr),
                              key=key_for_blank())
        # conversion
        declared, fac = table.unambiguous_factor(unit)
        if declared and fac is not None:
            rec.mon("conversion")
            tag = HedTag(text, schema)
            try:
                got = tag.value_as_default_unit()
            except Exception as ex:  # noqa
                key = key_for_blank()
                if key is None and any(c.isupper() for c in unit) and not any(d["symbol"] for d in table.derivations(unit)):
                    key = "unit-name-case-conversion"
                rec.violation(f"value_as_default_unit raised {type(ex).__name__} for an accepted spelling", case, key=key)
                return
            want = float(num) * fac
            if got is None:
                rec.violation("value_as_default_unit is None although the unit declares a conversion factor", case,
                              key=key_for_blank())
            elif not math.isclose(got, want, rel_tol=1e-12, abs_tol=0.0):
                rec.violation("value_as_default_unit differs from number x unit factor x prefix factor", case)
            else:
                # linearity: doubling the number doubles the value
                rec.mon("linearity")
                x2 = repr(float(num) * 2)
                if "e" in x2 or "inf" in x2 or "nan" in x2:
                    return
                t2 = HedTag(make_text(nm, x2, unit, case.get("prefix", False)), schema)
                try:
                    g2 = t2.value_as_default_unit()
                except Exception as ex:  # noqa
                    rec.violation(f"value_as_default_unit raised {type(ex).__name__} on the doubled number", case)
                    return
                if g2 is None or not math.isclose(g2, 2 * got, rel_tol=1e-12, abs_tol=0.0):
                    rec.violation("value_as_default_unit is not linear in the number", case)
    elif kind == "rejected":
        rec.mon("rejected-flagged")
        if "UNITS_INVALID" not in {i["code"] for i in errs}:
            rec.violation("oracle-rejected unit text not reported as UNITS_INVALID", case,
                          key="text-between-number-and-unit" if case.get("two_words") else None)
        if case.get("two_words"):
            return                   # (what the conversion does with a malformed number is not part of the property)
        rec.mon("unknown-unit-none")
        try:
            got = HedTag(text, schema).value_as_default_unit()
        except Exception as ex:  # noqa
            rec.violation(f"value_as_default_unit raised {type(ex).__name__} for an unrecognised unit (must be None)", case)
            return
        if got is not None:
            rec.violation("value_as_default_unit returned a number for an unrecognised unit", case)
    else:
        rec.mon("bare-number")
        codes = sorted(i["code"] for i in issues)
        if ucodes or (plain and errs):
            rec.violation("bare number on a unit-class tag draws an error", case)
        elif "UNITS_MISSING" not in codes:
            rec.violation("bare number on a unit-class tag draws no missing-unit warning", case)
        elif plain and any(i["code"] not in ("UNITS_MISSING", "ELEMENT_DEPRECATED") for i in issues):
            rec.violation("bare number draws something other than the missing-unit warning: " + "/".join(codes), case)


def rejected_candidates(rng, table):
    cands = set()
    for cn, uname, a in table.units:
        is_sym = "unitSymbol" in a
        is_si = "SIUnit" in a
        if is_sym:
            for w in (uname.swapcase(), uname.upper(), uname.lower()):
                cands.add(w)
            cands.add("kilo" + uname)              # name prefix on a symbol
            if not is_si:
                cands.add("k" + uname)             # prefix on a non-SI symbol
        else:
            cands.add("k" + uname.lower())         # symbol prefix on a name
            cands.add("m" + uname.lower())
            if not is_si:
                cands.add("kilo" + uname.lower())  # prefix on a non-SI name
        cands.add(uname + "q")
    cands |= {"foo", "xyzunits", "unit", "Zz"}
    cands |= set(table.wrong_case())               # every symbol spelling, prefixed ones too, in another letter case
    return sorted(c for c in cands if c and " " not in c and not table.accepted(c))


def run_shard(shard, rec):
    rng = rec.rng
    v = shard["version"]
    rng.seed(f"c11-{v}-{shard['nodes'][0]}-{rng.random()}")
    o = schema_xml.load(v)
    full = shard["full"]
    numerals = NUMERALS_Q if full else NUMERALS_Q[:3]
    for path in shard["nodes"]:
        node = o.by_path[path.casefold()]
        table = units.table_for(o, node)
        derivs = [d for ds in list(table.exact.values()) + list(table.folded.values()) for d in ds]
        for d in derivs:
            for sp in _spellings(rng, d, full):
                nums = numerals if full else [rng.choice(NUMERALS_Q)] + numerals[:1]
                for num in nums:
                    case = dict(schema=v, ns=shard.get("ns", ""), node=path, kind="accepted", num=num, unit=sp, prefix=d["prefix"])
                    rec.case((shard.get("ns", "") + v, path, num, sp))
                    check_case(case, rec)
                    rec.count("unit-class", d["cls"])
                    rec.count("modifier", d["mod"] or "-")
                    if rng.random() < 0.0008:
                        rec.sample(case)
        for c in rejected_candidates(rng, table):
            case = dict(schema=v, ns=shard.get("ns", ""), node=path, kind="rejected", num=rng.choice(numerals), unit=c)
            rec.case((shard.get("ns", "") + v, path, case["num"], c))
            check_case(case, rec)
            if rng.random() < 0.002:
                rec.sample(case)
        # an ordinary unit written before the number: only prefix-type units may stand there
        sfx = table.suffix_spellings()
        for sp in (sfx if full else rng.sample(sfx, min(6, len(sfx)))):
            case = dict(schema=v, ns=shard.get("ns", ""), node=path, kind="rejected", num=rng.choice(numerals), unit=sp,
                        prefix=True)
            rec.case((shard.get("ns", "") + v, path, case["num"], sp, "unit-first"))
            rec.mon("unit-first-rejected")
            check_case(case, rec)
        # text left between the number and a recognised unit (a second unit, or anything else) is bad unit text
        for sp in (sfx if full else rng.sample(sfx, min(4, len(sfx)))):
            for junk in ("xx", rng.choice(sfx) if sfx else "xx"):
                case = dict(schema=v, ns=shard.get("ns", ""), node=path, kind="rejected", num=rng.choice(numerals),
                            unit=f"{junk} {sp}", two_words=True)
                rec.case((shard.get("ns", "") + v, path, case["num"], case["unit"], "two-words"))
                rec.mon("text-before-unit-rejected")
                check_case(case, rec)
        for num in numerals:
            case = dict(schema=v, ns=shard.get("ns", ""), node=path, kind="bare", num=num)
            rec.case((shard.get("ns", "") + v, path, num), nontrivial=False)
            check_case(case, rec)
    rec.count("schema", v, len(shard["nodes"]))


def replay(case, rec):
    check_case(case, rec)
