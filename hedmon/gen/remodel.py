"""Generator of remodeling operation lists / tables and row-list reference models of the 8 non-summary operations.

Model table: dict(columns=[names], rows=[{col: value}]) with value in {None (n/a), int, float, str}, typed the way the
remodeler reads a TSV file (a column is numeric only if it has no n/a and every cell parses as a number).
"""
import copy
import io
import math

NA = None


# --------------------------------------------------------------------------------------------- tables
def parse_number(s):
    try:
        if "." in s or "e" in s.lower():
            return float(s)
        return int(s)
    except ValueError:
        return None


def table_from_tsv(text):
    lines = text.strip("\n").split("\n")
    cols = lines[0].split("\t")
    raw = [ln.split("\t") for ln in lines[1:]]
    rows = [dict() for _ in raw]
    for ci, c in enumerate(cols):
        cells = [r[ci] for r in raw]
        nums = [parse_number(x) for x in cells]
        numeric = all(n is not None for n in nums) and "n/a" not in cells and cells
        if numeric and any(isinstance(n, float) for n in nums):
            nums = [float(n) for n in nums]
        for ri, x in enumerate(cells):
            rows[ri][c] = nums[ri] if numeric else (NA if x == "n/a" else x)
    return dict(columns=cols, rows=rows)


def gen_table(rng, nrows=None):
    n = nrows or rng.randrange(2, 8)
    cols = ["onset", "duration", "trial_type", "response", "code", "value"]
    lines = ["\t".join(cols)]
    t = 0.0
    code_na = rng.random() < 0.5
    # whole numbers written with a decimal point (read as a float column even when no cell is missing)
    code_dot = rng.random() < 0.25
    dur_na = rng.random() < 0.3
    # sometimes three rows in a row that agree in every categorical column, the middle one ending last
    block_at = rng.randrange(0, n - 2) if n >= 3 and rng.random() < 0.5 else None
    block = None
    for i in range(n):
        t += rng.choice([0.25, 0.5, 1.0, 1.5])
        dur = rng.choice(["0.5", "0.25", "1.0", "2.0"]) if not (dur_na and rng.random() < 0.3) else "n/a"
        tt = rng.choice(["go", "go", "stop", "rest", "n/a"])
        resp = rng.choice(["left", "right", "n/a", "left"])
        code = rng.choice(["1", "2", "3", "3"]) if not (code_na and rng.random() < 0.3) else "n/a"
        val = rng.choice(["0.5", "1.25", "3.0", "7.75"])
        if code_dot and code != "n/a":
            code += ".0"
        if block_at is not None and block_at <= i < block_at + 3:
            if block is None:
                block = (tt if tt != "n/a" else "go", resp, code)
            tt, resp, code = block
            dur = ["0.5", "4.0", "0.25"][i - block_at]
        lines.append("\t".join([repr(t), dur, tt, resp, code, val]))
    return "\n".join(lines) + "\n"


# --------------------------------------------------------------------------------------------- models
class ModelRaises(Exception):
    """The documented behaviour for these parameters on this table is to raise."""


def typed_eq(a, b):
    if a is None or b is None:
        return False
    if isinstance(a, str) != isinstance(b, str):
        return False
    return a == b


def m_remove_rows(t, p):
    if p["column_name"] not in t["columns"]:
        return t
    rows = [r for r in t["rows"] if not any(typed_eq(r[p["column_name"]], v) for v in p["remove_values"])]
    return dict(columns=list(t["columns"]), rows=rows)


def m_remove_columns(t, p):
    missing = [c for c in p["column_names"] if c not in t["columns"]]
    if missing and not p["ignore_missing"]:
        raise ModelRaises("missing column")
    cols = [c for c in t["columns"] if c not in p["column_names"]]
    return dict(columns=cols, rows=[{c: r[c] for c in cols} for r in t["rows"]])


def m_rename_columns(t, p):
    mp = p["column_mapping"]
    missing = [c for c in mp if c not in t["columns"]]
    if missing and not p["ignore_missing"]:
        raise ModelRaises("missing column")
    cols = [mp.get(c, c) for c in t["columns"]]
    return dict(columns=cols, rows=[{mp.get(c, c): v for c, v in r.items()} for r in t["rows"]])


def m_reorder_columns(t, p):
    missing = [c for c in p["column_order"] if c not in t["columns"]]
    if missing and not p["ignore_missing"]:
        raise ModelRaises("missing column")
    cols = [c for c in p["column_order"] if c in t["columns"]]
    if p["keep_others"]:
        cols += [c for c in t["columns"] if c not in cols]
    return dict(columns=cols, rows=[{c: r[c] for c in cols} for r in t["rows"]])


def cell_str(v):
    return "nan" if v is None else str(v)


def m_factor_column(t, p):
    col = p["column_name"]
    values = p.get("factor_values")
    names = p.get("factor_names")
    if not values:
        values = []
        for r in t["rows"]:
            if r[col] not in values:
                values.append(r[col])
        names = [col + "." + cell_str(v) for v in values]
    elif not names:
        names = [col + "." + str(v) for v in values]
    cols = list(t["columns"])
    rows = [dict(r) for r in t["rows"]]
    for v, nm in zip(values, names):
        if nm not in cols:
            cols.append(nm)
        for r in rows:
            r[nm] = 1 if (r[col] is not None and cell_str(r[col]) == cell_str(v)) else 0
    return dict(columns=cols, rows=rows)


def m_remap_columns(t, p):
    src, dst = p["source_columns"], p["destination_columns"]
    ints = p.get("integer_sources", [])

    def keystr(c, v):
        if v is None:
            return "n/a"
        if c in ints:
            return str(int(v))
        return str(v)
    table = {}
    for entry in p["map_list"]:
        k = tuple(str(x) for x in entry[:len(src)])
        table.setdefault(k, entry[len(src):])
    cols = list(t["columns"]) + [d for d in dst if d not in t["columns"]]
    rows = []
    missing = False
    for r in t["rows"]:
        r2 = dict(r)
        for c in src:
            r2[c] = keystr(c, r[c])             # source columns come back as strings (n/a stays n/a)
            if r2[c] == "n/a":
                r2[c] = None
        k = tuple(keystr(c, r[c]) for c in src)
        got = table.get(k)
        if got is None:
            missing = True
        for i, d in enumerate(dst):
            v = got[i] if got is not None else None
            r2[d] = None if v == "n/a" else v
        rows.append(r2)
    if missing and not p["ignore_missing"]:
        raise ModelRaises("unmapped source values")
    return dict(columns=cols, rows=rows)


def m_merge_consecutive(t, p):
    col = p["column_name"]
    if col not in t["columns"]:
        if not p["ignore_missing"]:
            raise ModelRaises("column missing")
        return t
    mcols = p.get("match_columns") or []
    miss = [c for c in mcols if c not in t["columns"]]
    if miss and not p["ignore_missing"]:
        raise ModelRaises("match column missing")
    if p["set_durations"] and ("onset" not in t["columns"] or "duration" not in t["columns"]):
        raise ModelRaises("no onset/duration")
    mcols = [c for c in mcols if c in t["columns"]]
    rows = [dict(r) for r in t["rows"]]
    out = []
    prev = None       # (row index in out, match tuple)
    for r in rows:
        is_code = typed_eq(r[col], p["event_code"])
        key = tuple(("NA",) if r[c] is None else ("V", r[c]) for c in mcols)
        if is_code and prev is not None and prev[1] == key:
            anchor = out[prev[0]]
            if p["set_durations"]:
                end_a = (anchor["onset"] or 0) + (anchor["duration"] or 0)
                end_r = (r["onset"] or 0) + (r["duration"] or 0)
                anchor["_end"] = max(anchor.get("_end", end_a), end_r)
            continue
        out.append(r)
        prev = (len(out) - 1, key) if is_code else None
    for r in out:
        if "_end" in r:
            r["duration"] = r.pop("_end") - r["onset"]
    return dict(columns=list(t["columns"]), rows=out)


def num(v):
    if v is None:
        return None
    if isinstance(v, (int, float)):
        return float(v)
    n = parse_number(v)
    return None if n is None else float(n)


def m_split_rows(t, p):
    if "onset" not in t["columns"] or "duration" not in t["columns"]:
        raise ModelRaises("no onset/duration")
    anchor = p["anchor_column"]
    cols = list(t["columns"]) + ([anchor] if anchor not in t["columns"] else [])
    parents = []
    for r in t["rows"]:
        r2 = dict(r)
        r2.setdefault(anchor, None)
        parents.append(r2)
    out = [] if p["remove_parent_row"] else list(parents)
    for event, ep in p["new_events"].items():
        for r in t["rows"]:
            on = num(r["onset"])
            for src in ep["onset_source"]:
                if isinstance(src, (int, float)):
                    on = None if on is None else on + src
                elif src in t["columns"]:
                    x = num(r[src])
                    on = None if (on is None or x is None) else on + x
                else:
                    raise ModelRaises("bad onset source")
            if on is None:
                continue
            dur = 0.0
            for src in ep["duration"]:
                if isinstance(src, (int, float)):
                    dur = None if dur is None else dur + src
                elif src in t["columns"]:
                    x = num(r[src])
                    dur = None if (dur is None or x is None) else dur + x
                else:
                    raise ModelRaises("bad duration source")
            nr = {c: None for c in cols}
            nr["onset"], nr["duration"], nr[anchor] = on, dur, event
            for c in ep.get("copy_columns", []) or []:
                nr[c] = r[c]
            out.append(nr)
    out.sort(key=lambda r: (float("inf") if num(r["onset"]) is None else num(r["onset"])))
    onsets = [num(r["onset"]) for r in out]
    if len(set(onsets)) != len(onsets):
        raise ModelRaises("rows with equal onsets: their order after the sort is not specified")
    return dict(columns=cols, rows=out)


MODELS = {"remove_rows": m_remove_rows, "remove_columns": m_remove_columns, "rename_columns": m_rename_columns,
          "reorder_columns": m_reorder_columns, "factor_column": m_factor_column, "remap_columns": m_remap_columns,
          "merge_consecutive": m_merge_consecutive, "split_rows": m_split_rows}


def run_model(table, ops):
    t = table
    for op in ops:
        t = MODELS[op["operation"]](t, op["parameters"])
    return t


# --------------------------------------------------------------------------------------------- operation lists
def column_kind(tables, c):
    """'num' if the column is numeric in every table, 'str' otherwise."""
    for t in tables:
        for r in t["rows"]:
            if isinstance(r[c], str) or r[c] is None:
                return "str"
    return "num"


def gen_op(rng, tables, optional=True):
    """One operation valid for the current (model) state of all tables; returns op dict or None."""
    cols = tables[0]["columns"]
    if any(t["columns"] != cols for t in tables):
        return None
    kind = rng.choice(list(MODELS))
    strcols = [c for c in cols if column_kind(tables, c) == "str" and c not in ("onset", "duration")]
    anycols = [c for c in cols if c not in ("onset", "duration")]
    values = lambda c: [r[c] for t in tables for r in t["rows"] if r[c] is not None]     # noqa
    if kind == "remove_rows":
        if not anycols:
            return None
        c = rng.choice(anycols + (["nosuchcolumn"] if rng.random() < 0.1 else []))
        vals = list(dict.fromkeys(values(c))) if c in cols else ["x"]
        if not vals:
            return None
        rv = rng.sample(vals, min(len(vals), rng.randrange(1, 3)))
        if rng.random() < 0.2:
            rv.append("neverpresent")
        p = dict(column_name=c, remove_values=rv)
    elif kind == "remove_columns":
        if len(anycols) < 2:
            return None
        names = rng.sample(anycols, rng.randrange(1, min(3, len(anycols))))
        ign = rng.random() < 0.5
        if ign and rng.random() < 0.4:
            names.append("nosuchcolumn")
        p = dict(column_names=names, ignore_missing=ign)
    elif kind == "rename_columns":
        if not anycols:
            return None
        src = rng.sample(anycols, rng.randrange(1, min(3, len(anycols) + 1)))
        mp = {c: c + "_r" for c in src if c + "_r" not in cols}
        if len(anycols) >= 2 and rng.random() < 0.3:
            # new names that are old names of other mapped columns: a swap, or a chain a->b, b->c
            a, b = rng.sample(anycols, 2)
            # (never a new name that another column already carries: two columns of one name have no defined meaning)
            mp = {a: b, b: a} if (rng.random() < 0.5 or b + "_r" in cols) else {a: b, b: b + "_r"}
        if not mp:
            return None
        ign = rng.random() < 0.5
        if ign and rng.random() < 0.4:
            mp["nosuchcolumn"] = "whatever"
        p = dict(column_mapping=mp, ignore_missing=ign)
    elif kind == "reorder_columns":
        order = rng.sample(cols, rng.randrange(1, len(cols) + 1))
        ign = rng.random() < 0.5
        if ign and rng.random() < 0.4:
            order.insert(rng.randrange(0, len(order) + 1), "nosuchcolumn")
        p = dict(column_order=order, ignore_missing=ign, keep_others=rng.random() < 0.6)
    elif kind == "factor_column":
        if not anycols:
            return None
        c = rng.choice(anycols)
        vals = list(dict.fromkeys(cell_str(v) for v in values(c)))
        p = dict(column_name=c)
        has_na = any(r[c] is None for t in tables for r in t["rows"])
        if optional and rng.random() < 0.65 or has_na:
            if not vals:
                return None
            fv = rng.sample(vals, rng.randrange(1, len(vals) + 1))
            if rng.random() < 0.2:
                fv.append("neverpresent")
            p["factor_values"] = fv
            if rng.random() < 0.5:
                p["factor_names"] = [f"f_{c}_{i}" for i in range(len(fv))]
        names = p.get("factor_names") or [c + "." + v for v in (p.get("factor_values") or vals)]
        if any(nm in cols for nm in names):
            return None
    elif kind == "remap_columns":
        if not anycols:
            return None
        src = rng.sample(anycols, rng.randrange(1, min(3, len(anycols) + 1)))
        dst = [f"new_{rng.randrange(100)}" for _ in range(rng.randrange(1, 3))]
        dst = list(dict.fromkeys(d for d in dst if d not in cols))
        if not dst:
            return None
        # the optional parameter: a source column of whole numbers (some cells may be missing) matched as integers
        whole = lambda c: all(r[c] is None or (not isinstance(r[c], (str, bool)) and float(r[c]).is_integer())      # noqa
                              for t in tables for r in t["rows"])
        if "code" in anycols and whole("code") and rng.random() < 0.5:
            src = ["code"] + [c for c in src if c != "code"][:1]        # the whole-number column, wherever it still is one
        ints = [c for c in src if c not in ("onset", "duration") and whole(c)] if rng.random() < 0.7 else []
        keys = []
        for t in tables:
            for r in t["rows"]:
                k = tuple("n/a" if r[c] is None else (str(int(r[c])) if c in ints else str(r[c])) for c in src)
                if k not in keys:
                    keys.append(k)
        if not keys:
            return None
        ign = rng.random() < 0.5
        if ign:
            keys = rng.sample(keys, rng.randrange(1, len(keys) + 1))
        # one kind of value per destination column (mixing ints, floats and n/a in one column changes how pandas
        # prints the numbers, which is not what this check is about)
        pools = [rng.choice([["a", "b", "n/a"], [2.5, 7.25, 0.125]]) for _ in dst]
        mp = [list(k) + [rng.choice(pool) for pool in pools] for k in keys]
        if len(mp) >= 2 and rng.random() < 0.4:
            # one key listed twice (the entries differ, so the list is still a set of unique items): the first one counts
            k0 = rng.randrange(0, len(mp) - 1)
            again = list(mp[k0][:len(src)]) + [rng.choice(pool) for pool in pools]
            if again != mp[k0]:
                mp.insert(rng.randrange(k0 + 1, len(mp)), again)
        p = dict(source_columns=src, destination_columns=dst, map_list=mp, ignore_missing=ign)
        if ints:
            p["integer_sources"] = ints
    elif kind == "merge_consecutive":
        if not anycols:
            return None
        c = rng.choice(anycols)
        vals = values(c)
        if not vals:
            return None
        setd = rng.random() < 0.5 and "onset" in cols and "duration" in cols and \
            column_kind(tables, "onset") == "num" and column_kind(tables, "duration") == "num"
        p = dict(column_name=c, event_code=rng.choice(vals), set_durations=setd, ignore_missing=rng.random() < 0.5)
        others = [x for x in anycols if x != c]
        if optional and rng.random() < 0.6 or not optional and False:
            if others:
                p["match_columns"] = rng.sample(others, rng.randrange(1, min(3, len(others) + 1)))
    else:
        if "onset" not in cols or "duration" not in cols or column_kind(tables, "onset") != "num":
            return None
        numcols = [c for c in cols if column_kind(tables, c) == "num" and c not in ("onset",)]
        # numeric columns holding n/a cells as well: a duration taken from an n/a cell stays n/a
        durcols = numcols + [c for c in cols if c != "onset" and c not in numcols
                             and all(not isinstance(r[c], str) for t in tables for r in t["rows"])
                             and any(r[c] is not None for t in tables for r in t["rows"])] * 2
        ev = {}
        for k in range(rng.randrange(1, 3)):
            e = dict(onset_source=[[0.125, 0.0625, 1.03125][k]] + ([rng.choice(numcols)] if numcols and rng.random() < 0.4 else []),
                     duration=[rng.choice([0, 0.5, 0.25])] + ([rng.choice(durcols)] if durcols and rng.random() < 0.45 else []))
            if optional and rng.random() < 0.6:
                cc = [c for c in cols if c not in ("onset", "duration")]
                if cc:
                    e["copy_columns"] = rng.sample(cc, rng.randrange(1, min(3, len(cc) + 1)))
            ev[f"ev{k}"] = e
        anchor = rng.choice(strcols + ["event_kind"]) if strcols else "event_kind"
        p = dict(anchor_column=anchor, new_events=ev, remove_parent_row=rng.random() < 0.4)
    return dict(operation=kind, description="generated", parameters=p)


def gen_case(rng, nops=None, optional=True):
    texts = [gen_table(rng) for _ in range(3)]
    tables = [table_from_tsv(x) for x in texts]
    ops = []
    cur = tables
    for _ in range(nops or rng.randrange(1, 5)):
        for _try in range(10):
            op = gen_op(rng, cur, optional)
            if op is None:
                continue
            try:
                nxt = [MODELS[op["operation"]](copy.deepcopy(t), op["parameters"]) for t in cur]
            except ModelRaises:
                continue
            ops.append(op)
            cur = nxt
            break
    return dict(tables=texts, ops=ops)


# --------------------------------------------------------------------------------------------- invalid lists
def break_ops(rng, ops):
    """Return (bad_ops, why) violating the JSON specification or an op-specific rule."""
    bad = copy.deepcopy(ops)
    why = rng.choice(["not-a-list", "empty-list", "op-not-dict", "missing-field", "extra-field", "unknown-operation",
                      "missing-required-parameter", "wrong-type-parameter", "extra-parameter", "op-specific",
                      "op-specific-then-good-one", "remap-entry-too-long"])
    if why == "remap-entry-too-long":
        op = dict(operation="remap_columns", description="generated",
                  parameters=dict(source_columns=["trial_type"], destination_columns=["kind"],
                                  map_list=[["go", "a", "extra"], ["stop", "b"]], ignore_missing=True))
        return bad + [op], "op-specific"
    if why == "op-specific-then-good-one":
        # an operation with an error only its own check finds, followed later by a correct operation of the same type
        good = {"factor_column": dict(operation="factor_column", description="generated",
                                      parameters=dict(column_name="trial_type", factor_values=["go"], factor_names=["is_go"])),
                "merge_consecutive": dict(operation="merge_consecutive", description="generated",
                                          parameters=dict(column_name="trial_type", event_code="go", set_durations=False,
                                                          ignore_missing=True, match_columns=["response"]))}
        kind = rng.choice(sorted(good))
        wrong = copy.deepcopy(good[kind])
        if kind == "factor_column":
            wrong["parameters"]["factor_values"] = ["go", "stop"]
        else:
            wrong["parameters"]["match_columns"] = ["trial_type"]
        return [wrong] + bad + [good[kind]], "op-specific"
    if why == "not-a-list":
        return bad[0], why
    if why == "empty-list":
        return [], why
    i = rng.randrange(len(bad))
    op = bad[i]
    if why == "op-not-dict":
        bad[i] = "remove_rows"
    elif why == "missing-field":
        del op[rng.choice(["operation", "description", "parameters"])]
    elif why == "extra-field":
        op["extra"] = 1
    elif why == "unknown-operation":
        op["operation"] = "no_such_operation"
    elif why == "missing-required-parameter":
        req = {"remove_rows": "column_name", "remove_columns": "ignore_missing", "rename_columns": "column_mapping",
               "reorder_columns": "keep_others", "factor_column": "column_name", "remap_columns": "map_list",
               "merge_consecutive": "event_code", "split_rows": "new_events"}[op["operation"]]
        op["parameters"].pop(req, None)
    elif why == "wrong-type-parameter":
        k = rng.choice(list(op["parameters"]))
        v = op["parameters"][k]
        op["parameters"][k] = [{"x": 1}]
    elif why == "extra-parameter":
        op["parameters"]["surprise"] = True
    else:
        kind = op["operation"]
        if kind == "factor_column":
            op["parameters"]["factor_values"] = ["a", "b"]
            op["parameters"]["factor_names"] = ["only_one"]
        elif kind == "remap_columns":
            if rng.random() < 0.5:
                op["parameters"]["map_list"] = [x[:-1] for x in op["parameters"]["map_list"]] or [["x"]]
            else:
                op["parameters"]["map_list"] = [list(x) + [x[-1]] for x in op["parameters"]["map_list"]] or [["x"]]
        elif kind == "merge_consecutive":
            op["parameters"]["match_columns"] = [op["parameters"]["column_name"]]
        else:
            op["parameters"]["surprise"] = True
            why = "extra-parameter"
    return bad, why
