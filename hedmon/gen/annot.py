"""Grammar-based generator of HED annotations whose validity follows from the schema XML alone,
plus single-rule mutators that name the HED-specification error code they must provoke.

Tree (JSON-able):  tag   {"t":"tag","name":<spelled name>,"suffix":<"" or "/...">,"node":<long path or None>,"role":<str>}
                   group {"t":"group","kids":[...],"role":<str>}
"""
import copy

from hedmon.oracle import schema_xml, units as units_oracle

# characters no HED string may contain: controls, and the non-printing separators and format characters beyond ASCII
NONPRINTING = "\x01\x07\x1f\x7f\x85\xa0\xad\u2009\u200b\u2028\u2029\u3000\ufeff"
NUMERALS = ["3", "0.5", "12.", "1e3", "-7", "+4", ".5", "2.5E-2", "10", "42", "6.25"]
WORDS = ["alpha", "Beta7", "gamma-2", "delta_x", "Epsilon", "zeta9", "Eta", "theta-q", "Iota", "kappa_1", "Lambda", "mu22"]
EXT_WORDS = ["Zzqext", "Qqmore", "Xxnew-1", "Yy_term", "Wwext9", "Vvthing"]


def tag(name, suffix="", node=None, role="plain"):
    return {"t": "tag", "name": name, "suffix": suffix, "node": node, "role": role}


def group(kids, role="group"):
    return {"t": "group", "kids": kids, "role": role}


def render(items, rng=None, ns=""):
    """Render a list of items as annotation text; rng adds legal blanks around delimiters."""
    def sp():
        return rng.choice(["", "", " ", "  "]) if rng else ""

    def one(it):
        if it["t"] == "tag":
            if it.get("raw") is not None:
                return ns + it["raw"]
            return ns + it["name"] + it["suffix"]
        return "(" + sp() + ("," + (rng.choice(["", " "]) if rng else "")).join(sp() + one(k) + sp() for k in it["kids"]) + sp() + ")"
    return (("," + (rng.choice(["", " "]) if rng else " ")) if True else ",").join(one(i) for i in items)


def walk(items, parent=None):
    for it in items:
        yield it, parent
        if it["t"] == "group":
            yield from walk(it["kids"], it)


class AnnotGen:
    def __init__(self, oracle, rng):
        self.o = oracle
        self.rng = rng
        self.plain = oracle.plain_nodes()
        self.values = [n for n in oracle.value_nodes()]
        self.ext = oracle.extension_nodes()
        self.noext = oracle.no_extension_nodes()
        self.reqchild = oracle.require_child_nodes()
        self.vocab = oracle.vocabulary()
        sp = {}
        for nm in ("Onset", "Offset", "Inset", "Duration", "Delay", "Event-context", "Def", "Def-expand", "Definition"):
            n = oracle.by_short.get(nm.casefold())
            if n is not None:
                sp[nm] = n
        self.sp = sp
        self.top = {nm for nm, n in sp.items() if n.has_inherited("topLevelTagGroup")}
        self._tables = {}
        self.used = set()
        self.defs = []

    # ---------------- spelling
    def spell(self, node, canonical=False):
        if canonical:
            return node.name
        s = self.rng.choice(node.suffix_paths())
        r = self.rng.random()
        if r < 0.15:
            s = s.lower()
        elif r < 0.25:
            s = s.upper()
        elif r < 0.3:
            s = "".join(c.upper() if self.rng.random() < 0.5 else c.lower() for c in s)
        return s

    def table(self, node):
        if node.path not in self._tables:
            self._tables[node.path] = units_oracle.table_for(self.o, node)
        return self._tables[node.path]

    # ---------------- values
    def value_for(self, node, for_def_placeholder=False):
        """A value text (without leading slash) valid for one of the node's value classes, with an accepted unit."""
        rng = self.rng
        vcs = self.o.value_classes_of(node)
        ucs = self.o.unit_classes_of(node)
        vc = rng.choice(vcs) if vcs else None
        if ucs and (vc in (None, "numericClass")):
            num = rng.choice(NUMERALS)
            t = self.table(node)
            cands = [(sp, d) for sp, ds in t.exact.items() for d in ds if " " not in sp]
            cands += [(sp, d) for sp, ds in t.folded.items() for d in ds if " " not in sp]
            if cands and rng.random() < 0.8:
                sp, d = rng.choice(cands)
                if not d["symbol"] and rng.random() < 0.3:
                    sp = sp.capitalize()
                return f"{sp} {num}" if d["prefix"] else f"{num} {sp}"
            return num
        if vc == "numericClass":
            return rng.choice(NUMERALS)
        if vc == "dateTimeClass":
            return rng.choice(["2023-05-06T07:08:09", "1999-12-31T23:59:59", "2020-02-29T00:00:00"])
        if vc == "nameClass":
            return rng.choice(WORDS)
        if vc == "textClass":
            if rng.random() < 0.15:
                return "/".join(rng.sample(WORDS, 2))      # free text may hold a slash: the value is all that follows the tag
            return " ".join(rng.sample(WORDS, rng.randrange(1, 4)))
        return rng.choice(WORDS).replace("_", "-")

    # ---------------- atoms (with global uniqueness)
    def _fresh(self, key):
        key = key.casefold()
        if key in self.used:
            return False
        self.used.add(key)
        return True

    def atom(self, canonical=False):
        rng = self.rng
        for _ in range(50):
            r = rng.random()
            if r < 0.55 or not self.values:
                n = rng.choice(self.plain)
                if self._fresh(n.path):
                    return tag(self.spell(n, canonical), "", n.path, "plain")
            elif r < 0.8:
                n = rng.choice(self.values)
                v = self.value_for(n)
                if self._fresh(n.path + "/" + v):
                    return tag(self.spell(n, canonical), "/" + v, n.path, "value")
            elif r < 0.9 and self.ext:
                n = rng.choice(self.ext)
                w = rng.choice(EXT_WORDS)
                if rng.random() < 0.3:
                    w += "/" + rng.choice(EXT_WORDS)
                if all(p.casefold() not in self.vocab for p in w.split("/")) and self._fresh(n.path + "/" + w):
                    return tag(self.spell(n, canonical), "/" + w, n.path, "ext")
            elif self.defs:
                t = self.def_use()
                if t:
                    return t
        raise RuntimeError("could not draw a fresh atom")

    # ---------------- definitions
    def make_defs(self, n=None, allow_empty=False):
        """Create a definition set: list of dict(name, takes_value, content(items), ph(node path of placeholder))."""
        rng = self.rng
        n = n or rng.randrange(2, 5)
        self.defs = []
        if "Definition" not in self.sp or "Def" not in self.sp:
            return self.defs
        # schemas of the 8.3 generation allow printable non-ASCII letters in names; some of them change under lower()
        # and casefold() differently (sharp s, final sigma)
        gen83 = (self.o.version or "").startswith("8.3") or (self.o.with_standard or "").startswith("8.3")
        names = ["Mydef", "Cond", "Stim-type", "Blk_a", "Resp"] + (["Ma\u00df", "Gr\u00f6\u00dfe", "\u039f\u0394\u039f\u03a3"] if gen83 else [])
        for i in range(n):
            takes = rng.random() < 0.5 and bool(self.values)
            name = rng.choice(names) + str(i)
            if allow_empty and not takes and rng.random() < 0.2:
                # the legal degenerate definition without contents
                self.defs.append(dict(name=name, takes_value=False, content=[], ph=None))
                continue
            saved = self.used
            self.used = set()
            content = [self._plain_atom() for _ in range(rng.randrange(1, 3))]
            ph = None
            if takes:
                node = rng.choice(self.values)
                suffix = "/#"
                ucs = self.o.unit_classes_of(node)
                if ucs and rng.random() < 0.4:
                    t = self.table(node)
                    syms = [sp for sp, ds in t.exact.items() for d in ds if " " not in sp and not d["prefix"]]
                    if syms:
                        suffix = "/# " + rng.choice(syms)
                ph_tag = tag(node.name, suffix, node.path, "placeholder")
                if rng.random() < 0.3:
                    content.append(group([ph_tag, self._plain_atom()]))      # the '#' tag one group deeper
                else:
                    content.append(ph_tag)
                ph = node.path
            if rng.random() < 0.4:
                content.append(group([self._plain_atom() for _ in range(rng.randrange(1, 3))]))
            rng.shuffle(content)
            self.used = saved
            self.defs.append(dict(name=name, takes_value=takes, content=content, ph=ph))
        return self.defs

    def _plain_atom(self):
        for _ in range(50):
            n = self.rng.choice(self.plain)
            if self._fresh(n.path):
                return tag(n.name, "", n.path, "plain")
        raise RuntimeError("no fresh plain atom")

    def def_strings(self):
        out = []
        for d in self.defs:
            nm = d["name"] + ("/#" if d["takes_value"] else "")
            out.append(f"(Definition/{nm}, ({render(d['content'])}))" if d["content"] else f"(Definition/{nm})")
        return out

    def def_value(self, d):
        node = self.o.by_path[d["ph"].casefold()]
        ph = [t for t, _ in walk(d["content"]) if t["t"] == "tag" and t["role"] == "placeholder"][0]
        rng = self.rng
        if ph["suffix"].startswith("/# "):
            return rng.choice(NUMERALS)          # unit comes from the definition
        return self.value_for(node)

    def def_use(self, d=None, expand=False):
        rng = self.rng
        d = d or rng.choice(self.defs)
        suffix = "/" + d["name"]
        val = None
        if d["takes_value"]:
            val = self.def_value(d)
            suffix += "/" + val
        if not self._fresh("def:" + suffix):
            return None
        if not expand:
            t = tag("Def", suffix, self.sp["Def"].path if "Def" in self.sp else None, "def")
            t["def"], t["val"] = d["name"], val
            return t
        t = tag("Def-expand", suffix, self.sp["Def-expand"].path, "def-expand")
        t["def"], t["val"] = d["name"], val
        if not d["content"]:
            return group([t], "def-expand-group")          # a definition without contents expands to the tag alone
        kids = [t, group(self.expansion(d, val), "def-content")]
        if rng.random() < 0.3:
            kids.reverse()                       # the content group may be written before the tag
        return group(kids, "def-expand-group")

    def expansion(self, d, val):
        content = copy.deepcopy(d["content"])
        for t, _ in walk(content):
            if t["t"] == "tag" and t["role"] == "placeholder":
                t["suffix"] = t["suffix"].replace("#", val)
                t["role"] = "def-value"
            elif t["t"] == "tag":
                t["role"] = "def-" + t["role"]
            else:
                t["role"] = "def-content"
        return content

    # ---------------- composite items
    def plain_group(self, depth, canonical=False):
        rng = self.rng
        kids = [self.atom(canonical) for _ in range(rng.randrange(1, 4))]
        if depth > 1 and rng.random() < 0.5:
            kids.append(self.plain_group(depth - 1, canonical))
        if self.defs and "Def-expand" in self.sp and rng.random() < 0.15:
            g = self.def_use(expand=True)
            if g:
                kids.append(g)
        rng.shuffle(kids)
        return group(kids)

    def temporal_group(self):
        """A valid top-level group anchored by Onset/Offset/Inset/Duration/Delay/Event-context."""
        rng = self.rng
        choices = []
        if self.defs and "Def" in self.sp:
            choices += [k for k in ("Onset", "Offset", "Inset") if k in self.top]
        choices += [k for k in ("Duration", "Delay") if k in self.top and self.sp[k].takes_value]
        if "Event-context" in self.top and self._ec_free():
            choices.append("Event-context")
        if not choices:
            return None
        k = rng.choice(choices)
        node = self.sp[k]
        if k in ("Onset", "Offset", "Inset"):
            use_expand = "Def-expand" in self.sp and rng.random() < 0.25
            d = self.def_use(expand=use_expand)
            if d is None:
                return None
            kids = [tag(self.spell(node), "", node.path, "temporal"), d]
            if k != "Offset" and rng.random() < 0.6:
                kids.append(self.plain_group(1))
            if "Delay" in self.top and rng.random() < 0.2:
                dn = self.sp["Delay"]
                kids.append(tag(self.spell(dn), "/" + self._time_value(dn), dn.path, "delay"))
            rng.shuffle(kids)
            return group(kids, "temporal-group")
        if k in ("Duration", "Delay"):
            kids = [tag(self.spell(node), "/" + self._time_value(node), node.path, k.lower()), self.plain_group(2)]
            if k == "Duration" and "Delay" in self.top and rng.random() < 0.3:
                dn = self.sp["Delay"]
                kids.append(tag(self.spell(dn), "/" + self._time_value(dn), dn.path, "delay"))
            rng.shuffle(kids)
            return group(kids, "duration-group")
        self.used.add("event-context")
        kids = [tag(self.spell(node), "", node.path, "event-context")]
        kids += [self.atom() for _ in range(rng.randrange(0, 3))]
        if rng.random() < 0.7 or len(kids) == 1:
            kids.append(self.plain_group(1))
        rng.shuffle(kids)
        return group(kids, "event-context-group")

    def _ec_free(self):
        return "event-context" not in self.used

    def _time_value(self, node):
        return self.value_for(node)

    def annotation(self, depth=4, canonical=False, temporal=True, size=None, reset=True):
        """A rule-conforming annotation: list of top-level items."""
        rng = self.rng
        if reset:
            self.used = set()
        items = []
        n = size or rng.randrange(1, 6)
        for _ in range(n):
            r = rng.random()
            if r < 0.45:
                items.append(self.atom(canonical))
            elif r < 0.8:
                items.append(self.plain_group(rng.randrange(1, depth), canonical))
            elif temporal:
                g = self.temporal_group()
                items.append(g if g else self.atom(canonical))
            else:
                items.append(self.atom(canonical))
        # a repeat that is legal because the two copies are not siblings: a top-level plain group echoed inside another group
        plain_tops = [g for g in items if g["t"] == "group" and g["role"] == "group" and
                      all(x["role"] in ("plain", "value", "ext", "group") for x, _ in walk([g]))]
        if plain_tops and rng.random() < 0.15:
            echo = copy.deepcopy(rng.choice(plain_tops))
            items.append(group([self.atom(canonical), echo]))
        return items


# =====================================================================================================
# Single-rule mutations.  Each returns (text, expected_code, kind) or None when not applicable.
# =====================================================================================================

def _all_tags(items):
    return [(t, p) for t, p in walk(items) if t["t"] == "tag"]


def _insert_raw(items, rng, raw_item, where="any"):
    """Insert a raw item at top level or inside a random plain group."""
    groups = [g for g, _ in walk(items) if g["t"] == "group" and g["role"] == "group"]
    if where == "top" or not groups or rng.random() < 0.5:
        items.insert(rng.randrange(0, len(items) + 1), raw_item)
    else:
        g = rng.choice(groups)
        g["kids"].insert(rng.randrange(0, len(g["kids"]) + 1), raw_item)


MUTATION_KINDS = ["unknown-tag", "extension-forbidden", "extension-is-schema-term", "requires-child", "bad-unit",
                  "bad-value", "repeated-tag", "repeated-group", "taggroup-outside-group", "toplevel-nested",
                  "extra-open-paren", "extra-close-paren", "swapped-parens", "double-comma", "leading-comma", "trailing-comma",
                  "empty-group", "missing-comma", "bracket-char", "control-char", "tilde", "stray-placeholder",
                  "undeclared-def", "def-extra-value", "def-missing-value", "altered-def-expand",
                  "second-event-context", "definition-in-annotation", "repeated-toplevel-tag"]


def mutate(gen, items, kind, rng):
    """Apply one fault of the given kind to a deep copy of items. Returns dict(text, code, kind) or None."""
    items = copy.deepcopy(items)
    o = gen.o
    raw = lambda s, role="raw": {"t": "tag", "name": s, "suffix": "", "node": None, "role": role, "raw": s}   # noqa
    text = None
    sub = None                                     # which variant of the fault was written, for coverage counts
    if kind == "unknown-tag":
        w = rng.choice(["Zzunknownword", "Qqnotatag", "Xyzzy-9"])
        if w.casefold() in gen.vocab:
            return None
        _insert_raw(items, rng, raw(w))
        code = "TAG_INVALID"
    elif kind == "extension-forbidden":
        if not gen.noext:
            return None
        n = rng.choice(gen.noext)
        _insert_raw(items, rng, raw(gen.spell(n) + "/" + rng.choice(EXT_WORDS)))
        code = "TAG_EXTENSION_INVALID"
    elif kind == "extension-is-schema-term":
        if not gen.ext:
            return None
        n = rng.choice(gen.ext)
        other = rng.choice(gen.plain)
        if other.path == n.path or any(a.path == other.path for a in n.ancestors()):
            return None
        if any(c.name.casefold() == other.name.casefold() for c in n.children):
            return None
        _insert_raw(items, rng, raw(gen.spell(n) + "/" + other.name))
        code = "TAG_EXTENSION_INVALID"
    elif kind == "requires-child":
        cands = gen.reqchild
        if not cands:
            return None
        n = rng.choice(cands)
        _insert_raw(items, rng, raw(gen.spell(n)))
        code = "TAG_REQUIRES_CHILD"
    elif kind == "bad-unit":
        cands = [n for n in gen.values if o.unit_classes_of(n) and
                 (not o.value_classes_of(n) or "numericClass" in o.value_classes_of(n))]
        if not cands:
            return None
        n = rng.choice(cands)
        t = gen.table(n)
        r = rng.random()
        wc = t.wrong_case()
        sfx = t.suffix_spellings()
        if r < 0.35 and wc:
            bad = rng.choice(wc)                   # a symbol, with or without an SI prefix, in another letter case
            val = f"{rng.choice(NUMERALS)} {bad}"
            sub = "wrong-case"
        elif r < 0.5 and sfx:
            val = f"{rng.choice(sfx)} {rng.choice(NUMERALS)}"      # an ordinary unit written before the number
            sub = "unit-first"
        else:
            bad = rng.choice(["foo", "xyzunits", "Zz", "qqs"])
            if t.accepted(bad):
                return None
            val = f"{rng.choice(NUMERALS)} {bad}"
        _insert_raw(items, rng, raw(f"{gen.spell(n)}/{val}"))
        code = "UNITS_INVALID"
    elif kind == "bad-value":
        cands = [n for n in gen.values if o.value_classes_of(n) == ["numericClass"]]
        multi = [n for n in gen.values if len(o.value_classes_of(n)) > 1
                 and set(o.value_classes_of(n)) <= {"numericClass", "nameClass"} and not o.unit_classes_of(n)]
        if not cands and not multi:
            return None
        if multi and (not cands or rng.random() < 0.3):
            # a value that is neither a number nor a name: it fails every class, each for its own reason
            n = rng.choice(multi)
            bad = rng.choice(["a.b", "3.5.5", "a$b", "a:b", "1.2e"])
        else:
            n = rng.choice(cands)
            bad = rng.choice(["abc", "1.2.3", "--4", "3e", "e5", "1,5".replace(",", "x")])
        unit = ""
        if o.unit_classes_of(n):
            t = gen.table(n)
            syms = [sp for sp, ds in t.exact.items() for d in ds if " " not in sp and not d["prefix"]]
            if syms:
                unit = " " + rng.choice(syms)
        _insert_raw(items, rng, raw(f"{gen.spell(n)}/{bad}{unit}"))
        code = "VALUE_INVALID"
    elif kind == "repeated-tag":
        tags = [(t, p) for t, p in _all_tags(items) if t["role"] in ("plain", "value", "ext")
                and (p is None or p["role"] in ("group", "event-context-group"))]
        if not tags:
            return None
        t, p = rng.choice(tags)
        dup = copy.deepcopy(t)
        node = o.by_path[t["node"].casefold()]
        dup["name"] = gen.spell(node)                 # another spelling of the same tag
        if dup.get("suffix") and dup["role"] == "ext" and rng.random() < 0.5 and dup["suffix"].swapcase() != dup["suffix"]:
            dup["suffix"] = dup["suffix"].swapcase()  # values and extensions compare without regard to letter case
        sibs = p["kids"] if p else items
        sibs.insert(rng.randrange(0, len(sibs) + 1), dup)
        code = "TAG_EXPRESSION_REPEATED"
    elif kind == "repeated-group":
        groups = [(g, p) for g, p in walk(items) if g["t"] == "group" and g["role"] == "group"
                  and (p is None or p["role"] in ("group", "event-context-group"))]
        if not groups:
            return None
        g, p = rng.choice(groups)
        dup = copy.deepcopy(g)
        rng.shuffle(dup["kids"])
        sibs = p["kids"] if p else items
        sibs.insert(rng.randrange(0, len(sibs) + 1), dup)
        code = "TAG_EXPRESSION_REPEATED"
    elif kind == "taggroup-outside-group":
        if "Def-expand" not in gen.sp or not gen.defs:
            return None
        d = rng.choice(gen.defs)
        suffix = "/" + d["name"] + ("/" + gen.def_value(d) if d["takes_value"] else "")
        items.insert(rng.randrange(0, len(items) + 1), raw("Def-expand" + suffix))
        code = "TAG_GROUP_ERROR"
    elif kind == "toplevel-nested":
        existing = [x for x in items if x["t"] == "group" and x["role"] in ("temporal-group", "duration-group")]
        if existing and rng.random() < 0.5:
            g = copy.deepcopy(rng.choice(existing))       # an equal, correctly placed copy stays at the top level
        else:
            saved = gen.used
            g = gen.temporal_group()
            gen.used = saved
        if g is None:
            return None
        if rng.random() < 0.5:
            items.insert(rng.randrange(0, len(items) + 1), group([g]))
        else:
            items.insert(rng.randrange(0, len(items) + 1), group([raw("Zzplaceholder-free") if False else gen._plain_atom(), g]))
        code = "TAG_GROUP_ERROR"
    elif kind in ("extra-open-paren", "extra-close-paren", "swapped-parens", "double-comma", "leading-comma", "trailing-comma",
                  "missing-comma", "bracket-char", "control-char", "tilde"):
        text = render(items, rng)
        if kind == "extra-open-paren":
            pos = rng.choice([i for i, c in enumerate(text) if c in ",("] + [0])
            text = text[:pos] + "(" + text[pos:] if text[pos:pos + 1] != "," else text[:pos + 1] + "(" + text[pos + 1:]
            code = "PARENTHESES_MISMATCH"
        elif kind == "extra-close-paren":
            pos = rng.choice([i + 1 for i, c in enumerate(text) if c == ")"] + [len(text)])
            text = text[:pos] + ")" + text[pos:]
            code = "PARENTHESES_MISMATCH"
        elif kind == "swapped-parens":
            stack, pairs = [], []
            for i, c in enumerate(text):
                if c == "(":
                    stack.append(i)
                elif c == ")":
                    a0 = stack.pop()
                    if not stack:                      # top-level pair: swapping it makes the depth negative
                        pairs.append((a0, i))
            if not pairs:
                return None
            a, b = rng.choice(pairs)
            text = text[:a] + ")" + text[a + 1:b] + "(" + text[b + 1:]
            code = "PARENTHESES_MISMATCH"
        elif kind == "double-comma":
            commas = [i for i, c in enumerate(text) if c == ","]
            if not commas:
                return None
            pos = rng.choice(commas)
            text = text[:pos] + "," + rng.choice(["", " "]) + text[pos:]
            code = "TAG_EMPTY"
        elif kind == "leading-comma":
            text = rng.choice([",", " ,", ", "]) + text
            code = "TAG_EMPTY"
        elif kind == "trailing-comma":
            text = text + rng.choice([",", " ,", ", "])
            code = "TAG_EMPTY"
        elif kind == "missing-comma":
            # drop a comma that separates ')' from what follows, or a tag from a following '('
            spots = []
            for i, c in enumerate(text):
                if c == ",":
                    left = text[:i].rstrip(" ")
                    right = text[i + 1:].lstrip(" ")
                    if left.endswith(")") and right and right[0] not in "),":
                        spots.append(i)
                    elif right.startswith("(") and left and left[-1] not in "(,":
                        spots.append(i)
            if not spots:
                return None
            pos = rng.choice(spots)
            text = text[:pos] + " " + text[pos + 1:]
            code = "COMMA_MISSING"
        else:
            # a forbidden character inside the name of a plain tag
            tags = [t for t, _ in _all_tags(items) if t["role"] == "plain" and len(t["name"]) > 2]
            if not tags:
                return None
            t = rng.choice(tags)
            ch = {"bracket-char": rng.choice("[]"), "control-char": rng.choice(NONPRINTING), "tilde": "~"}[kind]
            vals = [x for x, _ in _all_tags(items) if x["role"] == "value" and x.get("node") and len(x["suffix"]) > 3
                    and set(o.value_classes_of(o.by_path[x["node"].casefold()])) <= {"nameClass", "textClass"}
                    and set(o.value_classes_of(o.by_path[x["node"].casefold()]))]
            if kind == "control-char" and vals and rng.random() < 0.5:
                # the same character inside a name or text value: the value classes allow letters beyond ASCII, not these
                t = rng.choice(vals)
                k = rng.randrange(2, len(t["suffix"]) - 1)
                t["suffix"] = t["suffix"][:k] + ch + t["suffix"][k:]
                sub = "in-value"
            else:
                k = rng.randrange(1, len(t["name"]) - 1)
                t["raw"] = t["name"][:k] + ch + t["name"][k:]
            text = render(items, rng)
            code = "TILDES_UNSUPPORTED" if kind == "tilde" else "CHARACTER_INVALID"
    elif kind == "empty-group":
        _insert_raw(items, rng, {"t": "group", "kids": [], "role": "empty"})
        code = "TAG_EMPTY"
    elif kind == "stray-placeholder":
        if not gen.values:
            return None
        n = rng.choice(gen.values)
        _insert_raw(items, rng, raw(gen.spell(n) + "/#"))
        code = "PLACEHOLDER_INVALID"
    elif kind == "undeclared-def":
        if "Def" not in gen.sp:
            return None
        _insert_raw(items, rng, raw("Def/Nosuchdef" + rng.choice(["", "9", "/3"])))
        code = "DEF_INVALID"
    elif kind == "def-extra-value":
        ds = [d for d in gen.defs if not d["takes_value"]]
        if not ds or "Def" not in gen.sp:
            return None
        _insert_raw(items, rng, raw("Def/" + rng.choice(ds)["name"] + "/" + rng.choice(NUMERALS[:2] + WORDS[:2])))
        code = "DEF_INVALID"
    elif kind == "def-missing-value":
        ds = [d for d in gen.defs if d["takes_value"]]
        if not ds or "Def" not in gen.sp:
            return None
        _insert_raw(items, rng, raw("Def/" + rng.choice(ds)["name"]))
        code = "DEF_INVALID"
    elif kind == "altered-def-expand":
        if "Def-expand" not in gen.sp or not gen.defs:
            return None
        with_content = [x for x in gen.defs if x["content"]]
        if not with_content:
            return None
        d = rng.choice(with_content)
        val = gen.def_value(d) if d["takes_value"] else None
        content = gen.expansion(d, val)
        how = rng.choice(["add", "remove", "swap", "regroup", "regroup"] + (["unplug", "unplug"] if val and getattr(gen, "allow_unplug", False) else []))
        plain_in = [t for t, _ in walk(content) if t["t"] == "tag" and t["role"] == "def-plain"]
        if how == "unplug":
            # the content as the definition declares it: the value named on the Def-expand tag was never plugged in
            content = gen.expansion(d, "#")
        elif how == "regroup":
            # the same tags, grouped differently: a nested group dissolved into its parent, or two members wrapped
            inner = [k for k in content if k["t"] == "group"]
            if inner:
                g0 = rng.choice(inner)
                i0 = content.index(g0)
                content[i0:i0 + 1] = g0["kids"]
            elif len(content) >= 2:
                a, b = content[0], content[1]
                content[0:2] = [group([a, b])]
            else:
                content[0:1] = [group([content[0]])]
        elif how == "add" or not plain_in:
            content.append(gen._plain_atom())
        elif how == "remove" and len(content) > 1:
            content.pop(rng.randrange(len(content)))
        else:
            t = rng.choice(plain_in)
            n = rng.choice(gen.plain)
            if n.path.casefold() in {x["node"].casefold() for x in plain_in}:
                return None
            t["name"], t["node"] = n.name, n.path
        suffix = "/" + d["name"] + ("/" + val if val else "")
        kids = [tag("Def-expand", suffix, gen.sp["Def-expand"].path, "def-expand"), group(content)]
        if rng.random() < 0.5:
            kids.reverse()                       # the content group may be written before the tag
        g = group(kids)
        _insert_raw(items, rng, g)
        code = "DEF_EXPAND_INVALID"
    elif kind == "second-event-context":
        if "Event-context" not in gen.top:
            return None
        node = gen.sp["Event-context"]
        n_have = sum(1 for t, _ in _all_tags(items) if t["role"] == "event-context")
        for _ in range(2 - min(n_have, 1)):
            items.insert(rng.randrange(0, len(items) + 1),
                         group([tag(gen.spell(node), "", node.path, "event-context"), gen._plain_atom()]))
        code = "TAG_NOT_UNIQUE"
    elif kind == "repeated-toplevel-tag":
        # a legal Delay + Duration pair with a second copy of one of the two carrying another value
        if not ({"Delay", "Duration"} <= gen.top) or not gen.sp["Delay"].takes_value or not gen.sp["Duration"].takes_value:
            return None
        dn, un = gen.sp["Delay"], gen.sp["Duration"]
        twice = rng.choice([dn, un])
        v1, v2 = gen._time_value(twice), gen._time_value(twice)
        if v1.casefold() == v2.casefold():
            return None
        other = un if twice is dn else dn
        kids = [tag(gen.spell(twice), "/" + v1, twice.path, "raw-temporal"), tag(gen.spell(twice), "/" + v2, twice.path, "raw-temporal"),
                tag(gen.spell(other), "/" + gen._time_value(other), other.path, "raw-temporal"), gen.plain_group(1)]
        rng.shuffle(kids)
        items.insert(rng.randrange(0, len(items) + 1), group(kids, "faulty-temporal-group"))
        code = "TAG_GROUP_ERROR"
    elif kind == "definition-in-annotation":
        if "Definition" not in gen.sp:
            return None
        items.insert(rng.randrange(0, len(items) + 1),
                     group([raw("Definition/Newdef" + str(rng.randrange(9))), group([gen._plain_atom()])]))
        code = "DEFINITION_INVALID"
    else:
        raise ValueError(kind)
    tree_level = text is None or kind in ("bracket-char", "control-char", "tilde")
    if text is None:
        text = render(items, rng)
    return dict(text=text, code=code, kind=kind, items=items if tree_level else None, sub=sub)


# =====================================================================================================
# Meaning-preserving rewrites (used by the relational monitors)
# =====================================================================================================

def respell(gen, items, rng):
    """Every schema-identified tag name -> another suffix path / letter case; suffix verbatim."""
    out = copy.deepcopy(items)
    for t, _ in walk(out):
        if t["t"] == "tag" and t.get("raw") is None and t["node"]:
            node = gen.o.by_path.get(t["node"].casefold())
            if node is not None:
                t["name"] = gen.spell(node)
    return out


def permute(items, rng):
    """Any permutation of siblings at every level."""
    out = copy.deepcopy(items)

    def rec(lst):
        rng.shuffle(lst)
        for it in lst:
            if it["t"] == "group":
                rec(it["kids"])
    rec(out)
    return out
