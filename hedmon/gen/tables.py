"""Generators of sidecars and event tables, and the reference assembly model (C06; reused by C07, C12, C16).

A generated bundle (JSON-able):
  sidecar : dict as it would be in the JSON file
  kinds   : {column: "categorical" | "value" | "ignored"}
  columns : column order of the table
  rows    : list of rows (list of cell strings, same order as columns)
"""
import copy

from hedmon.gen import annot
from hedmon.oracle import hedparse

CAT_COLS = ["trial_type", "response", "stim_file", "cond", "block", "stim-file", "Cond2", "resp-hand_2", "10"]
VAL_COLS = ["rt", "score", "contrast", "rt-2", "Score_B", "2"]     # (a name of digits only is a legal name)
IGN_COLS = ["notes", "sample"]
# (the one-letter keys and "n/" are pieces of the reserved key "n/a" and are ordinary keys themselves)
CAT_KEYS = ["go", "stop", "left", "right", "k1", "k2", "3", "4.0", "a", "n", "n/", "/a"]
NA = "n/a"


def _entry_items(gen, rng, size=None):
    n = size or rng.randrange(1, 4)
    items = []
    for _ in range(n):
        if rng.random() < 0.6:
            items.append(gen.atom())
        else:
            items.append(gen.plain_group(rng.randrange(1, 3)))
    return items


def gen_bundle(gen, rng, n_refs=None, nrows=None, with_onset=None, valid_cells=True, empty_cells=True):
    """Sidecar with 1-5 columns, 0-2 curly-brace references (incl. {HED}), and a table over its categories."""
    gen.used = set()
    ncat = rng.randrange(0, 3)
    nval = rng.randrange(0, 3)
    if ncat + nval == 0:
        ncat = 1
    cats = rng.sample(CAT_COLS, ncat)
    vals = rng.sample(VAL_COLS, nval) if gen.values else []
    igns = rng.sample(IGN_COLS, rng.randrange(0, 2))
    sidecar, kinds, valgen = {}, {}, {}
    for c in cats:
        keys = rng.sample(CAT_KEYS, rng.randrange(1, 4))
        sidecar[c] = {"Description": f"column {c}", "Levels": {k: f"level {k}" for k in keys},
                      "HED": {k: _entry_items(gen, rng) for k in keys}}
        kinds[c] = "categorical"
    for c in vals:
        free = [n for n in gen.values if n.path.casefold() + "/#" not in gen.used]
        if not free:
            raise RuntimeError("no fresh value node")
        node = rng.choice(free)
        gen.used.add(node.path.casefold() + "/#")
        suffix = "/#"
        items = [annot.tag(node.name, suffix, node.path, "placeholder")]
        if rng.random() < 0.5:
            items += _entry_items(gen, rng, 1)
            rng.shuffle(items)
        sidecar[c] = {"Description": f"value column {c}", "HED": items}
        kinds[c] = "value"
        valgen[c] = node.path
    for c in igns:
        sidecar[c] = {"Description": f"ignored column {c}", "Levels": {"a": "x"}} if rng.random() < 0.5 else \
            {"LongName": c, "Units": "s"}
        kinds[c] = "ignored"
    has_hed_col = rng.random() < 0.6
    # references
    bearing = cats + vals
    nref = n_refs if n_refs is not None else rng.choice([0, 0, 1, 1, 2])
    targets = set()
    hosts = set()
    for _ in range(nref):
        cand_hosts = [c for c in bearing if c not in targets]
        if not cand_hosts:
            break
        host = rng.choice(cand_hosts)
        cand_t = [c for c in bearing if c != host and c not in hosts and c not in targets] + (["HED"] if has_hed_col and "HED" not in targets else [])
        if not cand_t:
            break
        target = rng.choice(cand_t)
        hosts.add(host)
        targets.add(target)
        ref = {"t": "tag", "name": "{" + target + "}", "suffix": "", "node": None, "role": "ref", "raw": "{" + target + "}"}
        entries = list(sidecar[host]["HED"].values()) if kinds[host] == "categorical" else [sidecar[host]["HED"]]
        chosen = [e for e in entries if rng.random() < 0.8] or entries[:1]
        for e in chosen:
            where = rng.random()
            groups = [g for g, _ in annot.walk(e) if g["t"] == "group" and g["role"] == "group"]
            if where < 0.35 and groups:
                g = rng.choice(groups)
                g["kids"].insert(rng.randrange(0, len(g["kids"]) + 1), copy.deepcopy(ref))
            elif where < 0.5:
                e.insert(rng.randrange(0, len(e) + 1), annot.group([copy.deepcopy(ref)]))      # alone in a group
            else:
                e.insert(rng.choice([0, len(e), rng.randrange(0, len(e) + 1)]), copy.deepcopy(ref))
    # render sidecar entries to text
    for c in cats:
        sidecar[c]["HED"] = {k: annot.render(v, rng) for k, v in sidecar[c]["HED"].items()}
    for c in vals:
        sidecar[c]["HED"] = annot.render(sidecar[c]["HED"], rng)
    # table
    # sidecar column missing from the file (never a reference target: what an unresolvable reference assembles to
    # is not part of the property; C07 checks that it is reported)
    absent = set(c for c in bearing if c not in targets and rng.random() < 0.12)
    extra = ["duration"] + (["other_col"] if rng.random() < 0.3 else [])
    onset = with_onset if with_onset is not None else rng.random() < 0.6
    columns = ([c for c in cats + vals + igns if c not in absent] + extra + (["HED"] if has_hed_col else []))
    rng.shuffle(columns)
    if onset:
        columns = ["onset"] + columns
    n = nrows or rng.randrange(1, 7)
    # mostly early, coarsely spaced times; sometimes late in a long recording and finely spaced
    t0, dt = rng.choice([(0.0, 0.5)] * 8 + [(5000.0, 0.0001), (86400.0, 0.25)])
    rows = []
    for r in range(n):
        row = []
        for c in columns:
            if c == "onset":
                row.append(repr(round(t0 + float(r + 1) * dt, 6)))
            elif c == "HED":
                q = rng.random()
                if q < 0.25:
                    row.append(NA)
                elif q < 0.35 and empty_cells:
                    row.append("")
                else:
                    row.append(annot.render(_entry_items(gen, rng, rng.randrange(1, 3)), rng))
            elif kinds.get(c) == "categorical":
                q = rng.random()
                keys = list(sidecar[c]["HED"])
                if q < 0.15:
                    row.append(NA)
                elif q < 0.25 and not valid_cells:
                    row.append("unknownkey")
                elif q < 0.3 and empty_cells:
                    row.append("")
                else:
                    row.append(rng.choice(keys))
            elif kinds.get(c) == "value":
                q = rng.random()
                if q < 0.15:
                    row.append(NA)
                elif q < 0.22 and empty_cells:
                    row.append("")
                else:
                    node = gen.o.by_path[valgen[c].casefold()]
                    row.append(gen.value_for(node))
            else:
                row.append(rng.choice(["1", "x", NA, "0.5"]))
        rows.append(row)
    return dict(sidecar=sidecar, kinds=kinds, columns=columns, rows=rows)


# ---------------------------------------------------------------------------------------------- the model
def _piece(bundle, col, cell):
    """Text contributed by one cell before reference splicing, or None."""
    if cell is None or cell == NA or cell == "":
        return None
    if col == "HED":
        return cell
    kind = bundle["kinds"].get(col)
    if kind == "categorical":
        return bundle["sidecar"][col]["HED"].get(cell)
    if kind == "value":
        return bundle["sidecar"][col]["HED"].replace("#", cell)
    return None


def refs_of(bundle):
    import re
    out = set()
    for col, kind in bundle["kinds"].items():
        if kind == "categorical":
            texts = bundle["sidecar"][col]["HED"].values()
        elif kind == "value":
            texts = [bundle["sidecar"][col]["HED"]]
        else:
            continue
        for t in texts:
            out.update(re.findall(r"\{([a-z_\-0-9]+)\}", t, re.IGNORECASE))
    return out


def _splice(children, text, pieces_tree):
    """Replace ref tags by the referenced piece's children (or drop them); prune groups that become empty.
    children: reference-parser nodes over `text`. Returns canonical tuple."""
    out = []
    for c in children:
        if c[0] == "T":
            t = text[c[1]:c[2]]
            if t.startswith("{") and t.endswith("}"):
                sub = pieces_tree.get(t[1:-1])
                if sub:
                    out.extend(sub)
            else:
                out.append(("t", t.casefold()))
        else:
            inner = _splice(c[3], text, pieces_tree)
            if inner or not _had_ref(c[3], text):
                out.append(("g", tuple(sorted(inner))))
    return out


def _had_ref(children, text):
    for c in children:
        if c[0] == "T":
            t = text[c[1]:c[2]]
            if t.startswith("{") and t.endswith("}"):
                return True
        elif _had_ref(c[3], text):
            return True
    return False


def model_row(bundle, row):
    """Canonical unordered tree the assembled annotation of this row must equal."""
    cols = bundle["columns"]
    cell = dict(zip(cols, row))
    refs = {r for r in refs_of(bundle) if r in cols and (r == "HED" or bundle["kinds"].get(r) in ("categorical", "value"))}
    bearing = [c for c in cols if c == "HED" or bundle["kinds"].get(c) in ("categorical", "value")]
    pieces = {c: _piece(bundle, c, cell[c]) for c in bearing}
    # referenced pieces as canonical child lists (they contain no refs themselves)
    ptree = {}
    for r in refs:
        p = pieces.get(r)
        if p:
            kids, ok = hedparse.parse(p)
            ptree[r] = list(hedparse.canon(kids, p)) if ok else None
    out = []
    for c in bearing:
        if c in refs:
            continue
        p = pieces[c]
        if not p:
            continue
        kids, ok = hedparse.parse(p)
        out.extend(_splice(kids, p, ptree))
    return tuple(sorted(out))


def model_cell(bundle, col, cell_text):
    return _piece(bundle, col, cell_text)


def to_tsv(bundle):
    lines = ["\t".join(bundle["columns"])]
    for r in bundle["rows"]:
        lines.append("\t".join(c if c != "" else NA for c in r))
    return "\n".join(lines) + "\n"
