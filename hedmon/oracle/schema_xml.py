"""Independent reader of HED schema XML (xml.etree only; never hed's loader).

Gives, for one HED*.xml text: nodes with long path / short name / own attributes / description / '#' child,
unit classes with units, unit modifiers, value classes, attribute definitions, header, prologue, epilogue.
"""
import xml.etree.ElementTree as ET

# attributes that attach a placement / uniqueness / deprecation rule to a node and (conservatively) its subtree
SPECIAL_NODE_ATTRS = {"tagGroup", "topLevelTagGroup", "unique", "required", "deprecatedFrom",
                      "reserved", "recommended", "position", "predicateType", "default"}
# names the HED specification (and hed-python) treats specially whatever the schema version says
RESERVED_NAMES = {"onset", "offset", "inset", "duration", "delay", "def", "def-expand", "definition", "event-context"}


def _attrs(elem, tag="attribute"):
    out = {}
    for a in elem.findall(tag):
        name = a.findtext("name")
        vals = [v.text or "" for v in a.findall("value")]
        out[name] = vals if vals else True
    return out


class Node:
    __slots__ = ("name", "parent", "children", "attrs", "desc", "hash_child", "path")

    def __init__(self, name, parent, attrs, desc):
        self.name = name
        self.parent = parent
        self.children = []
        self.attrs = attrs
        self.desc = desc
        self.hash_child = None
        self.path = (parent.path + "/" + name) if parent else name

    def ancestors(self, include_self=True):
        n = self if include_self else self.parent
        while n is not None:
            yield n
            n = n.parent

    @property
    def depth(self):
        return self.path.count("/") + 1

    def suffix_paths(self):
        """Every partial path ending in this node: short name ... full path."""
        parts = self.path.split("/")
        return ["/".join(parts[i:]) for i in range(len(parts) - 1, -1, -1)]

    def has_inherited(self, attr):
        return any(attr in n.attrs for n in self.ancestors())

    @property
    def takes_value(self):
        return self.hash_child is not None


class SchemaOracle:
    def __init__(self, xml_text):
        root = ET.fromstring(xml_text)
        self.header = dict(root.attrib)
        self.header = {k: v for k, v in self.header.items() if not k.startswith("{") and ":" not in k}
        self.version = root.get("version")
        self.library = root.get("library") or ""
        self.with_standard = root.get("withStandard") or ""
        self.unmerged = root.get("unmerged")
        self.prologue = root.findtext("prologue") or ""
        self.epilogue = root.findtext("epilogue") or ""
        self.nodes = []                 # all non-'#' nodes, document order
        self.roots = []
        self.by_short = {}              # casefolded short name -> Node
        self.by_path = {}               # casefolded long path -> Node
        self.duplicates = []
        schema = root.find("schema")
        for n in schema.findall("node"):
            self._walk(n, None)
        self.unit_classes = {}
        for uc in root.findall("unitClassDefinitions/unitClassDefinition"):
            name = uc.findtext("name")
            units = {}
            for u in uc.findall("unit"):
                units[u.findtext("name")] = dict(attrs=_attrs(u), desc=u.findtext("description"))
            if name in self.unit_classes:           # library adding units to an existing class
                self.unit_classes[name]["units"].update(units)
            else:
                self.unit_classes[name] = dict(attrs=_attrs(uc), desc=uc.findtext("description"), units=units)
        self.modifiers = {}
        for m in root.findall("unitModifierDefinitions/unitModifierDefinition"):
            self.modifiers[m.findtext("name")] = dict(attrs=_attrs(m), desc=m.findtext("description"))
        self.value_classes = {}
        for v in root.findall("valueClassDefinitions/valueClassDefinition"):
            self.value_classes[v.findtext("name")] = dict(attrs=_attrs(v), desc=v.findtext("description"))
        self.attribute_defs = {}
        for a in root.findall("schemaAttributeDefinitions/schemaAttributeDefinition"):
            self.attribute_defs[a.findtext("name")] = dict(props=_attrs(a, "property"), desc=a.findtext("description"))
        self.property_defs = {}
        for p in root.findall("propertyDefinitions/propertyDefinition"):
            self.property_defs[p.findtext("name")] = dict(desc=p.findtext("description"))

    def _walk(self, elem, parent):
        name = elem.findtext("name")
        node = Node(name, parent, _attrs(elem), elem.findtext("description"))
        if name == "#":
            parent.hash_child = node
            return
        self.nodes.append(node)
        if parent is None:
            self.roots.append(node)
        else:
            parent.children.append(node)
        key = name.casefold()
        if key in self.by_short:
            self.duplicates.append(name)
        else:
            self.by_short[key] = node
        self.by_path[node.path.casefold()] = node
        for c in elem.findall("node"):
            self._walk(c, node)

    # ----- derived views used by the generators
    def extension_allowed(self, node):
        """extensionAllowed on the node or an ancestor (value-taking nodes never 'extend')."""
        return (not node.takes_value) and node.has_inherited("extensionAllowed")

    def is_plain(self, node):
        """Neither the node nor an ancestor nor a descendant-less special: carries no placement/uniqueness/deprecation rule."""
        for n in node.ancestors():
            if SPECIAL_NODE_ATTRS & set(n.attrs) or n.name.casefold() in RESERVED_NAMES:
                return False
        return True

    def plain_nodes(self):
        """Nodes usable bare anywhere: no rule attribute on the node or an ancestor, no '#' child, no requireChild."""
        return [n for n in self.nodes if self.is_plain(n) and not n.takes_value and "requireChild" not in n.attrs]

    def require_child_nodes(self):
        return [n for n in self.nodes if "requireChild" in n.attrs and self.is_plain(n)]

    def extension_nodes(self):
        """Plain nodes under which an extension is certainly permitted: extensionAllowed on the node or an ancestor,
        with no value-taking node on the way up to it (hed stops inheritance there)."""
        out = []
        for n in self.plain_nodes():
            for a in n.ancestors():
                if a.takes_value:
                    break
                if "extensionAllowed" in a.attrs:
                    out.append(n)
                    break
        return out

    def no_extension_nodes(self):
        """Plain nodes under which an extension is certainly forbidden: no extensionAllowed anywhere on the path."""
        return [n for n in self.plain_nodes() if not n.has_inherited("extensionAllowed")]

    def value_nodes(self):
        return [n for n in self.nodes if n.takes_value and self.is_plain(n)
                and not (SPECIAL_NODE_ATTRS & set(n.hash_child.attrs))]

    def vocabulary(self):
        """All case-folded node names (an extension word equal to one of these is an error)."""
        return set(self.by_short)

    def unit_classes_of(self, node):
        v = node.hash_child.attrs.get("unitClass") if node.hash_child else None
        return list(v) if isinstance(v, list) else []

    def value_classes_of(self, node):
        v = node.hash_child.attrs.get("valueClass") if node.hash_child else None
        return list(v) if isinstance(v, list) else []


_cache = {}


def load(version):
    from hedmon.core import env
    if version not in _cache:
        with open(env.xml_path(version), encoding="utf-8") as f:
            _cache[version] = SchemaOracle(f.read())
    return _cache[version]
