"""Reference tokenizer / tree builder for HED annotation text, written from the property text only.

A tag is a maximal run of non-delimiter characters (delimiters: ',', '(', ')'), trimmed of U+0020.
Nesting equals parenthesis nesting. Balanced: depth never negative and zero at the end.
Tree nodes:  ("T", start, end)   |   ("G", start, end, [children])      (end exclusive; group span = '(' .. ')')
"""

DELIMS = ",()"


def balanced(text):
    depth = 0
    for ch in text:
        if ch == "(":
            depth += 1
        elif ch == ")":
            depth -= 1
            if depth < 0:
                return False
    return depth == 0


def parse(text):
    """Return (children, ok). ok is False when parentheses are unbalanced (children then meaningless)."""
    stack = [[]]
    starts = []
    i, n = 0, len(text)
    run_start = None
    for i, ch in enumerate(text + ","):          # sentinel delimiter flushes the last run
        if ch in DELIMS:
            if run_start is not None:
                s, e = run_start, i
                while s < e and text[s] == " ":
                    s += 1
                while e > s and text[e - 1] == " ":
                    e -= 1
                if e > s:
                    stack[-1].append(("T", s, e))
                run_start = None
            if i == n:
                break
            if ch == "(":
                stack.append([])
                starts.append(i)
            elif ch == ")":
                if len(stack) == 1:
                    return [], False
                kids = stack.pop()
                stack[-1].append(("G", starts.pop(), i + 1, kids))
        elif run_start is None:
            run_start = i
    if len(stack) != 1:
        return [], False
    return stack[0], True


def tags_of(children):
    for c in children:
        if c[0] == "T":
            yield c
        else:
            yield from tags_of(c[3])


def delimiter_well_formed(text):
    """True when text has balanced parentheses, no empty tag (',,', leading/trailing comma, '(,', ',)'),
    no empty group '()', and commas separate every pair of siblings."""
    if not balanced(text):
        return False
    # walk tokens: T (tag), '(' , ')' , ','
    toks = []
    run = False
    for ch in text:
        if ch in DELIMS:
            toks.append(ch)
            run = False
        elif ch != " ":
            if not run:
                toks.append("T")
                run = True
        # blanks inside a run keep the run; blanks between delimiters are ignored
    prev = None
    for t in toks:
        if t == ",":
            if prev in (None, ",", "("):
                return False
        elif t == ")":
            if prev in (",", "("):
                return False
        elif t in ("T", "("):
            if prev in ("T", ")"):
                return False
        prev = t
    if prev == ",":
        return False
    return True


def canon(children, text, key=None):
    """Canonical unordered form: sorted nested tuples of case-folded tag text (or key(tag_text))."""
    out = []
    for c in children:
        if c[0] == "T":
            t = text[c[1]:c[2]]
            out.append(("t", key(t) if key else t.casefold()))
        else:
            out.append(("g", canon(c[3], text, key)))
    return tuple(sorted(out))


def canon_text(text, key=None):
    kids, ok = parse(text)
    if not ok:
        return None
    return canon(kids, text, key)
