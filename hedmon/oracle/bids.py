"""Reference resolver of BIDS sidecar inheritance, written from the property text of C16.

The sidecar applied to a file is the top-down merge (deeper overrides shallower per column key) of every
same-suffix .json file lying in a directory on the path from the dataset root to the file whose filename
entities all occur with the same values in the file's name; files in excluded directories take no part.
"""
import json
import os


def parse_name(path):
    base = os.path.basename(path)
    stem, ext = os.path.splitext(base)
    pieces = stem.split("_")
    suffix = pieces[-1]
    ents = {}
    for p in pieces[:-1]:
        k, _, v = p.partition("-")
        ents[k] = v
    return suffix, ext.lower(), ents


def chain_for(root, target, exclude_dirs=()):
    """Ordered list (root first) of applicable .json paths for target (an events .tsv or a sidecar .json itself)."""
    root = os.path.realpath(root)
    target = os.path.realpath(target)
    suffix, ext, ents = parse_name(target)
    rel = os.path.relpath(os.path.dirname(target), root)
    parts = [] if rel == "." else rel.split(os.sep)
    if any(p in exclude_dirs for p in parts):
        return []
    dirs = [root]
    for p in parts:
        dirs.append(os.path.join(dirs[-1], p))
    chain = []
    for d in dirs:
        for name in sorted(os.listdir(d)):
            p = os.path.join(d, name)
            if not os.path.isfile(p) or not name.lower().endswith(".json"):
                continue
            s2, e2, ents2 = parse_name(p)
            if s2 != suffix:
                continue
            if p == target or all(k in ents and ents[k] == v for k, v in ents2.items()):
                chain.append(p)
    return chain


def merged(chain):
    out = {}
    for p in chain:
        with open(p) as f:
            out.update(json.load(f))
    return out


def data_files(root, suffix="events", ext=".tsv", exclude_dirs=()):
    root = os.path.realpath(root)
    out = []
    for d, dirs, files in os.walk(root):
        dirs[:] = sorted(x for x in dirs if x not in exclude_dirs)
        for f in sorted(files):
            stem, e = os.path.splitext(f)
            if e.lower() == ext and stem.split("_")[-1] == suffix:
                out.append(os.path.join(d, f))
    return out
