"""Unit oracle derived from the schema XML (oracle/schema_xml.py), written from the property text of C11.

For a value-taking node: which unit spellings are accepted, which derivation(s) each has, and its factor.
"""

IRREGULAR_PLURAL = {"foot": "feet", "hertz": "hertz", "inch": "inches"}


def plural(lower_name):
    """Hand-written English plural; None when the plural is not obvious (then the plural is not tested)."""
    if lower_name in IRREGULAR_PLURAL:
        return IRREGULAR_PLURAL[lower_name]
    if lower_name.endswith(("s", "x", "z", "ch", "sh", "y", "o", "f", "fe")) or " " in lower_name or "-" in lower_name:
        return None
    if not lower_name.isalpha():
        return None
    return lower_name + "s"


def factor(literal_list):
    """Conversion factor literal -> float, reading '^' as 'e' (schema data convention); None if absent."""
    if not isinstance(literal_list, list) or not literal_list:
        return None
    try:
        return float(literal_list[0].replace("^", "e"))
    except ValueError:
        return None


class UnitTable:
    """Accepted spellings for one set of unit classes."""

    def __init__(self, oracle, class_names):
        self.exact = {}      # exact-case spelling (symbols) -> list of derivations
        self.folded = {}     # case-folded spelling (names) -> list of derivations
        self.units = []      # (class, unit name, attrs)
        sym_mods = {m: d for m, d in oracle.modifiers.items() if "SIUnitSymbolModifier" in d["attrs"]}
        name_mods = {m: d for m, d in oracle.modifiers.items() if "SIUnitModifier" in d["attrs"]}
        self.sym_mods, self.name_mods = sym_mods, name_mods
        for cn in class_names:
            cls = oracle.unit_classes.get(cn)
            if not cls:
                continue
            for uname, u in cls["units"].items():
                a = u["attrs"]
                self.units.append((cn, uname, a))
                is_sym = "unitSymbol" in a
                is_si = "SIUnit" in a
                has_cf = "conversionFactor" in a
                ufac = factor(a.get("conversionFactor")) if has_cf else None
                if ufac is None and has_cf:
                    ufac = 1.0
                mods = [(None, None)]
                if is_si:
                    mods += list((sym_mods if is_sym else name_mods).items())
                if is_sym:
                    bases = [uname]
                else:
                    bases = [uname.lower()]
                    p = plural(uname.lower())
                    if p and p != uname.lower():
                        bases.append(p)
                for b in bases:
                    for mname, m in mods:
                        mfac = 1.0
                        if m is not None:
                            f = factor(m["attrs"].get("conversionFactor"))
                            mfac = f if f is not None else 1.0
                        total = (ufac * mfac) if has_cf else None
                        d = dict(cls=cn, unit=uname, mod=mname, base=b, symbol=is_sym, prefix="unitPrefix" in a,
                                 factor=total, has_cf=has_cf)
                        sp = (mname or "") + b
                        if is_sym:
                            self.exact.setdefault(sp, []).append(d)
                        else:
                            self.folded.setdefault(sp.casefold(), []).append(d)

    def derivations(self, spelling):
        out = list(self.exact.get(spelling, []))
        out += self.folded.get(spelling.casefold(), [])
        return out

    def accepted(self, spelling):
        return bool(self.derivations(spelling))

    def wrong_case(self):
        """Letter-case variants of every symbol spelling, prefixed ones included, that no derivation accepts."""
        out = set()
        for sp in self.exact:
            for w in (sp.upper(), sp.lower(), sp.swapcase(), sp.capitalize(), sp[:1].swapcase() + sp[1:]):
                if w != sp and not self.accepted(w):
                    out.add(w)
        return sorted(out)

    def suffix_spellings(self):
        """Accepted spellings (exact case for symbols, lower case for names) of units that stand after the number."""
        out = [sp for sp, ds in self.exact.items() if not any(d["prefix"] for d in ds)]
        out += [sp for sp, ds in self.folded.items() if not any(d["prefix"] for d in ds)]
        return sorted(sp for sp in out if " " not in sp)

    def unambiguous_factor(self, spelling):
        """(declared, factor): declared False when the unit has no conversion factor; factor None when ambiguous."""
        ds = self.derivations(spelling)
        if not ds:
            return False, None
        facs = {d["factor"] for d in ds}
        if len(facs) != 1:
            return True, None
        f = facs.pop()
        return (f is not None), f


def table_for(oracle, node):
    return UnitTable(oracle, oracle.unit_classes_of(node))
