#!/bin/bash
# usage: tools/seeded_regress_par.sh [workers=4] [id-prefix]
# The same as tools/seeded_regress.sh, but on scratch worktrees of /repo (one per worker, under /tmp, removed at the
# end) through HEDMON_REPO, so that several seeded changes are judged at once and /repo itself is never touched.
N=${1:-4}; PREFIX=$2
cd /verif
ids=(seeded/${PREFIX}*/)
for w in $(seq 1 $N); do
  (
    WT=/tmp/wt_regress_$w
    sleep $((w * 3))      # (git worktree add is not safe to run several times at once)
    git -C /repo worktree remove --force $WT >/dev/null 2>&1
    git -C /repo worktree add -q --detach $WT HEAD || exit 2
    k=0
    for d in "${ids[@]}"; do
      k=$((k+1)); [ $((k % N)) -eq $((w % N)) ] || continue
      id=$(basename $d)
      P=$(/venv/bin/python -c "import json;m=json.load(open('$d/meta.json'));print(' '.join(m.get('regress_with') or [m['breaks_property']]))")
      if ! git -C $WT apply $PWD/$d/patch.diff 2>/dev/null; then echo "$id PATCH-DOES-NOT-APPLY"; continue; fi
      r=""
      for p in $P; do
        n=$(HEDMON_REPO=$WT ./check $p quick 2>&1 | grep -c "^VIOLATION")
        if [ "$n" -gt 0 ]; then r="$r == $p: CAUGHT ($n)"; else r="$r == $p: MISSED"; fi
      done
      git -C $WT checkout -q -- .
      echo "$id$r"
    done
    git -C /repo worktree remove --force $WT
  ) &
done
wait
git -C /repo worktree prune
