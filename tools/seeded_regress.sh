#!/bin/bash
# usage: tools/seeded_regress.sh [id-prefix]   - applies every seeded change to /repo in turn, runs the quick check of
# the property it breaks (or the checks named in meta.json "regress_with"), restores /repo, prints CAUGHT/MISSED.
cd /verif
for d in seeded/${1}*/; do
  id=$(basename $d)
  P=$(/venv/bin/python -c "import json;m=json.load(open('$d/meta.json'));print(' '.join(m.get('regress_with') or [m['breaks_property']]))")
  r=$(tools/try_patch.sh $d/patch.diff $P 2>&1 | grep "^== " | tr '\n' ' ')
  echo "$id $r"
done
git -C /repo status --short | head -3
