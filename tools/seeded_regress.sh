#!/bin/bash
# usage: tools/seeded_regress.sh [id-prefix]   - applies every seeded change to /repo in turn, runs the quick check of
# the property it breaks, restores /repo, and prints CAUGHT/MISSED per change.
cd /verif
for d in seeded/${1}*/; do
  id=$(basename $d); P=$(/venv/bin/python -c "import json;print(json.load(open('$d/meta.json'))['breaks_property'])")
  r=$(tools/try_patch.sh $d/patch.diff $P 2>&1 | grep "^== " | head -1)
  echo "$id $r"
done
git -C /repo status --short | head -3
