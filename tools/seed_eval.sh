#!/bin/bash
# usage: tools/seed_eval.sh <Cnn> <out_dir> [extra props...]
# Independently confirms a seeded change (patch applies on a clean worktree, repo suite still passes, demo passes
# without and fails with the change), then runs the quick checks against /repo with the change applied, and restores.
P="$1"; OUT="$2"; shift 2; PROPS="$P $*"
W=/tmp/verify_$P
git -C /repo worktree remove --force $W >/dev/null 2>&1
git -C /repo worktree add -q $W HEAD || exit 2
echo "--- demo on the original tree:"
(cd $W && PYTHONPATH=$W timeout 600 /venv/bin/python $OUT/demo.py >/tmp/verify_${P}_demo0.log 2>&1; echo "exit=$?")
git -C $W apply $OUT/patch.diff || { echo "PATCH DOES NOT APPLY"; git -C /repo worktree remove --force $W; exit 2; }
echo "--- demo on the changed tree:"
(cd $W && PYTHONPATH=$W timeout 600 /venv/bin/python $OUT/demo.py >/tmp/verify_${P}_demo1.log 2>&1; echo "exit=$?")
echo "--- repository suite with the change:"
/venv/bin/python /verif/tools/baseline_at.py $W | head -5
git -C /repo worktree remove --force $W
echo "--- checks against /repo with the change applied:"
/verif/tools/try_patch.sh $OUT/patch.diff $PROPS
