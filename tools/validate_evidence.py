#!/venv/bin/python
import json, sys, glob, jsonschema
s = json.load(open("/root/.vp/EVIDENCE.schema.json"))
bad = 0
for p in sorted(glob.glob("/verif/evidence/*.json")):
    try:
        jsonschema.validate(json.load(open(p)), s); print("ok ", p)
    except Exception as e:
        bad += 1; print("BAD", p, str(e)[:300])
sys.exit(bad)
