#!/bin/bash
# usage: tools/sweep.sh <tier> <seed> [props...]   - run checks, one summary line each
TIER=${1:-quick}; SEED=${2:-0}; shift 2
PROPS=${@:-C01 C02 C03 C04 C05 C06 C07 C08 C09 C10 C11 C12 C13 C14 C15 C16 C17 C18 C19 C20}
for p in $PROPS; do
  out=$(VERIF_SEED=$SEED ./check $p $TIER 2>&1 | grep -v auto_activate)
  rc=$?
  echo "$out" | grep -E "^(VIOLATION|INCONCLUSIVE|KNOWN-FINDING)" | cut -c1-230
  echo "$out" | tail -1 | cut -c1-150
done
