#!/venv/bin/python
"""Run the repository's pinned test command (guard off) and compare with /root/.vp/BASELINE.json stable_pass."""
import json, os, subprocess, sys, tempfile
import xml.etree.ElementTree as ET
base = json.load(open("/root/.vp/BASELINE.json"))
out = tempfile.mktemp(suffix=".xml")
env = dict(os.environ)
env.pop("HED_PYTHON_VERIF", None)
cmd = base["cmd"].replace("<file>", out)
subprocess.run(cmd, shell=True, env=env, stdout=subprocess.DEVNULL, stderr=subprocess.DEVNULL)
passed = set()
for tc in ET.parse(out).getroot().iter("testcase"):
    if not any(ch.tag in ("failure", "error", "skipped") for ch in tc):
        passed.add(f"{tc.get('classname')}::{tc.get('name')}")
os.remove(out)
missing = [t for t in base["stable_pass"] if t not in passed]
print(f"stable_pass={len(base['stable_pass'])} passed_now={len(passed)} missing={len(missing)}")
for t in missing:
    print("NOT PASSING:", t)
sys.exit(1 if missing else 0)
