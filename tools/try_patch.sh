#!/bin/bash
# usage: tools/try_patch.sh [-R] <patch-or-commit> <prop> [<prop>...]   (tier from $TIER, default quick)
# Applies a patch (or the reverse of a /repo commit with -R) to /repo's working tree, runs the checks, restores.
REV=""
if [ "$1" = "-R" ]; then REV="-R"; shift; fi
P="$1"; shift; case "$P" in /*) ;; *) [ -f "/verif/$P" ] && P="/verif/$P";; esac
cd /repo || exit 2
if [ -n "$(git status --porcelain --untracked-files=no)" ]; then echo "repo dirty, refusing"; exit 2; fi
if [ -f "$P" ]; then git apply $REV "$P" || { echo "patch does not apply"; exit 2; }
else git show "$P" | git apply -R || { echo "reverse of commit does not apply"; exit 2; }; fi
cd /verif
for prop in "$@"; do
  out=$(./check "$prop" "${TIER:-quick}" 2>&1 | grep -v auto_activate)
  rc=$(echo "$out" | grep -c "^VIOLATION")
  echo "== $prop: $( [ "$rc" -gt 0 ] && echo CAUGHT || echo MISSED ) ($rc violation lines)"
  echo "$out" | grep -E "^VIOLATION|^INCONCLUSIVE" | cut -c1-260 | head -4
done
git -C /repo checkout -- . 
