#!/venv/bin/python
"""usage: baseline.py <worktree>  - run the pinned test suite inside <worktree> and report whether all 690 baseline tests still pass."""
import json, os, subprocess, sys, tempfile
import xml.etree.ElementTree as ET
wt = os.path.realpath(sys.argv[1])
base = json.load(open("/root/.vp/BASELINE.json"))
out = tempfile.mktemp(suffix=".xml")
env = dict(os.environ, PYTHONPATH=wt)
cmd = base["cmd"].replace("cd /repo", f"cd {wt}").replace("<file>", out)
subprocess.run(cmd, shell=True, env=env, stdout=subprocess.DEVNULL, stderr=subprocess.DEVNULL)
passed = set()
for tc in ET.parse(out).getroot().iter("testcase"):
    if not any(ch.tag in ("failure", "error", "skipped") for ch in tc):
        passed.add(f"{tc.get('classname')}::{tc.get('name')}")
os.remove(out)
missing = [t for t in base["stable_pass"] if t not in passed]
print(f"stable_pass={len(base['stable_pass'])} missing={len(missing)}")
for t in missing: print("NOT PASSING:", t)
sys.exit(1 if missing else 0)
