#!/venv/bin/python
"""Generate /verif/MANIFEST.json from the table below (keeps it schema-valid)."""
import json, os
HERE = os.path.dirname(os.path.dirname(os.path.abspath(__file__)))
ALL = [f"C{i:02d}" for i in range(1, 21)]
EXPL = "exploration"
CHECKS = {
 "C02": dict(level=EXPL, design="2/C02", technique="runtime monitoring: reference-tokenizer oracle over exhaustively enumerated and random strings",
             text="Every string of a bounded alphabet space (exhaustive up to the stated length), every bounded sequence of real-tag tokens, and seeded random Unicode strings are parsed by the real HedString and compared with a 40-line reference tokenizer; unbalanced text must give an empty tree and a PARENTHESES_MISMATCH issue; printed forms must re-parse to an equal tree. Held-on-observed, exhaustive within the bound.",
             note="Trusted: the reference tokenizer (hedmon/oracle/hedparse.py), CPython. Beyond the length bound only random sampling."),
}
NOT_YET = "check not built yet in this round (planned in DESIGN.md section 2)"
m = dict(version=1,
         setup_cmd="./setup.sh",
         hooks=dict(guard="HED_PYTHON_VERIF", enable="no source hooks: all instrumentation is attached from the harness at run time (wrappers, sys.monitoring, audit hooks); ./check exports HED_PYTHON_VERIF=1 but the repository does not read it",
                    baseline_off_cmd="/verif/tools/baseline.py", source_commits=[], add_only=True),
         engines=[dict(name="hedmon", path="hedmon/", serves_properties=sorted(CHECKS), kind_free_text="runtime monitors (reference models, relational monitors, invariant hooks, history checkers, fault injection) over generated workloads driving the real hed-python code")],
         checks=[], notes="See DESIGN.md. Fix commits in /repo are listed in KNOWN_FINDINGS.txt.", not_applicable=[])
for pid in ALL:
    if pid in CHECKS:
        c = CHECKS[pid]
        m["checks"].append(dict(property_id=pid, quick_cmd=f"./check {pid} quick", thorough_cmd=f"./check {pid} thorough",
                                evidence_file=f"evidence/{pid}.json", replay_cmd_template=f"./check {pid} --replay {{path}}",
                                engine="hedmon", level_claimed=dict(category=c["level"], text=c["text"], design_ref=c["design"]),
                                level_note=c["note"], technique=c["technique"]))
    else:
        m["not_applicable"].append(dict(property_id=pid, reason=NOT_YET))
json.dump(m, open(os.path.join(HERE, "MANIFEST.json"), "w"), indent=1)
import jsonschema
jsonschema.validate(m, json.load(open("/root/.vp/MANIFEST.schema.json")))
print("MANIFEST.json written:", len(m["checks"]), "checks,", len(m["not_applicable"]), "not claimed")
