#!/bin/bash
# usage: tools/seed_eval2.sh <Cnn> <patch.diff> <demo.py> [extra props...]
# Like seed_eval.sh, for an explicit patch/demo pair: confirms the change independently in a fresh worktree (patch
# applies, demo passes without and fails with it, repository suite still passes), then runs the quick checks against
# /repo with the change applied and restores /repo.
P="$1"; PATCH="$2"; DEMO="$3"; shift 3; PROPS="$P $*"
W=/tmp/verify_$P
git -C /repo worktree remove --force $W >/dev/null 2>&1
git -C /repo worktree add -q --detach $W HEAD || exit 2
echo "--- demo on the original tree:"
(cd $W && PYTHONPATH=$W timeout 900 /venv/bin/python $DEMO >/tmp/verify_${P}_demo0.log 2>&1; echo "exit=$?")
git -C $W apply $PATCH || { echo "PATCH DOES NOT APPLY"; git -C /repo worktree remove --force $W; exit 2; }
echo "--- demo on the changed tree:"
(cd $W && PYTHONPATH=$W timeout 900 /venv/bin/python $DEMO >/tmp/verify_${P}_demo1.log 2>&1; echo "exit=$?")
echo "--- repository suite with the change:"
/venv/bin/python /verif/tools/baseline_at.py $W 2>/dev/null | head -5
git -C /repo worktree remove --force $W
echo "--- checks against /repo with the change applied:"
/verif/tools/try_patch.sh $PATCH $PROPS
