#!/venv/bin/python
"""Rebuild the table at the end of DESIGN.md section 8 from seeded/*/meta.json (prose above the table is kept)."""
import json, os, re
HERE = os.path.dirname(os.path.dirname(os.path.abspath(__file__)))
p = os.path.join(HERE, "DESIGN.md")
s = open(p).read()
rows = []
for d in sorted(os.listdir(os.path.join(HERE, "seeded"))):
    m = json.load(open(os.path.join(HERE, "seeded", d, "meta.json")))
    by, hist = m.get("detected_by", ""), m.get("history", "")
    first = m.get("first_run") or ("missed" if ("MISSED" in by or "MISSED" in hist) else "caught")
    rd = m.get("round", 1)
    by2 = re.sub(r"^MISSED[^;:.]*[;:.]\s*", "", by) if rd == 1 and first == "missed" else by
    rows.append((d, rd, m["needs_to_manifest"], first, by2))
tbl = "| seeded change | round | needs | first run | caught by (quick tier) |\n|---|---|---|---|---|\n"
for d, rd, needs, first, by in rows:
    tbl += f"| {d} | {rd} | {needs} | {first} | {by} |\n"
i = s.index("| seeded change | round |")
open(p, "w").write(s[:i] + tbl)
for r in sorted({x[1] for x in rows}):
    print(f"round {r}: {sum(1 for x in rows if x[1] == r)} kept, {sum(1 for x in rows if x[1] == r and x[3] == 'missed')} missed at first run")
